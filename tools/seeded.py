#!/venv/bin/python
"""Seeded breaking changes written by independent sub-agents (kept under
/verif/seeded/<id>/: patch.diff, demo.py, notes.md, meta.json).

    tools/seeded.py ingest <dir> <property> [<id>]   confirm a candidate (tests pass, demo fails with / passes without
                                                     the patch), run the property's check against it, store it
    tools/seeded.py run [id|property ...] [--tier T] re-run the checks against stored changes and print a table

Everything runs against a scratch copy of /repo under /tmp (removed afterwards); /repo
itself is never modified.  `git -C /repo apply seeded/<id>/patch.diff` + `./check <P>`
+ `git -C /repo checkout -- .` is equivalent.
"""
import os, sys, json, shutil, subprocess, argparse, time

HERE = os.path.dirname(os.path.abspath(__file__))
VERIF = os.path.dirname(HERE)
sys.path.insert(0, HERE)
from mutants import make_copy, run_tests


ALSO = []


def demo(d, demo_py):
    env = dict(os.environ, PYTHONPATH=os.path.join(d, 'src'), PYTHONDONTWRITEBYTECODE='1')
    r = subprocess.run(['/venv/bin/python', demo_py], cwd=os.path.dirname(demo_py), env=env, capture_output=True, text=True, timeout=300)
    return r.returncode


def apply(d, patch):
    r = subprocess.run(['patch', '-p1', '--no-backup-if-mismatch', '-i', patch], cwd=d, capture_output=True, text=True)
    return r.returncode == 0, r.stdout + r.stderr


def run_check(d, prop, tier, seed=None):
    env = dict(os.environ, YPSIM_REPO=d, YPSIM_SHRINK_S='10')
    if seed is not None:
        env['VERIF_SEED'] = str(seed)
    t0 = time.time()
    r = subprocess.run([os.path.join(VERIF, 'check'), prop, '--tier', tier, '--no-selftest'], env=env, capture_output=True, text=True)
    lines = [l for l in r.stdout.splitlines() if l.startswith(('VIOLATION', 'violation', 'HARNESS', 'KNOWN'))]
    for l in lines:
        if l.startswith('VIOLATION') and 'replay=' in l:
            f = l.split('replay=')[1]
            if os.path.exists(f):
                os.remove(f)
    caught = r.returncode == 1 and any(l.startswith('VIOLATION property=%s ' % prop) for l in lines)
    first = next((l for l in lines if l.startswith('violation')), '')
    return {'check': prop, 'tier': tier, 'exit': r.returncode, 'caught': caught, 'seconds': round(time.time() - t0, 1), 'first_violation': first[:600]}


def ingest(src, prop, sid):
    patch = os.path.join(src, 'patch.diff')
    demo_py = os.path.join(src, 'demo.py')
    clean = make_copy()
    try:
        rc_clean = demo(clean, demo_py)
    finally:
        shutil.rmtree(clean, ignore_errors=True)
    d = make_copy()
    try:
        ok, msg = apply(d, patch)
        if not ok:
            print('patch does not apply:', msg)
            return 1
        tests_ok, tail = run_tests(d)
        rc_patched = demo(d, demo_py)
        res = run_check(d, prop, 'quick')
        also = [run_check(d, p2, 'quick') for p2 in ALSO]
        confirmed = tests_ok and rc_clean == 0 and rc_patched != 0
        print(json.dumps({'id': sid, 'tests': tail, 'demo_clean_exit': rc_clean, 'demo_patched_exit': rc_patched, 'confirmed': confirmed, 'check': res, 'also': also}, indent=1))
        if not confirmed:
            print('NOT CONFIRMED - not stored')
            return 1
        out = os.path.join(VERIF, 'seeded', sid)
        os.makedirs(out, exist_ok=True)
        for f in ('patch.diff', 'demo.py', 'notes.md'):
            if os.path.exists(os.path.join(src, f)):
                shutil.copy(os.path.join(src, f), os.path.join(out, f))
        notes = open(os.path.join(src, 'notes.md')).read() if os.path.exists(os.path.join(src, 'notes.md')) else ''
        meta = {'id': sid, 'property': prop, 'origin': 'independent sub-agent given only the property text and a scratch worktree',
                'needs_to_manifest': notes.strip()[:1500],
                'confirmed': {'existing_tests_with_patch': tail, 'demo_exit_unchanged_tree': rc_clean, 'demo_exit_with_patch': rc_patched,
                              'how': 'scratch copy of /repo under /tmp; patch -p1; pytest -q; PYTHONPATH=<copy>/src /venv/bin/python demo.py'},
                'also_checked_by': ALSO, 'checks_run': [res] + also}
        with open(os.path.join(out, 'meta.json'), 'w') as f:
            json.dump(meta, f, indent=1)
            f.write('\n')
        return 0
    finally:
        shutil.rmtree(d, ignore_errors=True)


def rerun(sel, tier, seed):
    base = os.path.join(VERIF, 'seeded')
    rows = []
    for sid in sorted(os.listdir(base)):
        mp = os.path.join(base, sid, 'meta.json')
        if not os.path.exists(mp):
            continue
        meta = json.load(open(mp))
        if sel and sid not in sel and meta['property'] not in sel:
            continue
        d = make_copy()
        try:
            ok, msg = apply(d, os.path.join(base, sid, 'patch.diff'))
            if not ok:
                rows.append((sid, 'PATCH-FAILS', ''))
                print(sid, 'patch does not apply any more:', msg[:300])
                continue
            res = run_check(d, meta['property'], tier, seed)
            also = [run_check(d, p2, tier, seed) for p2 in meta.get('also_checked_by', [])] if not res['caught'] else []
        finally:
            shutil.rmtree(d, ignore_errors=True)
        meta['checks_run'] = [c for c in meta.get('checks_run', []) if not (c['check'] == res['check'] and c['tier'] == tier)] + [res]
        with open(mp, 'w') as f:
            json.dump(meta, f, indent=1)
            f.write('\n')
        for a2 in also:
            meta['checks_run'] = [c for c in meta['checks_run'] if not (c['check'] == a2['check'] and c['tier'] == tier)] + [a2]
        with open(mp, 'w') as f:
            json.dump(meta, f, indent=1)
            f.write('\n')
        by_other = [a2['check'] for a2 in also if a2['caught']]
        verdict = 'caught' if res['caught'] else ('caught-by-' + '+'.join(by_other) if by_other else 'MISSED(exit %d)' % res['exit'])
        rows.append((sid, verdict, '%ss %s' % (res['seconds'], (res['first_violation'] or (also and also[0]['first_violation']) or '')[:150])))
        print('%-8s %-16s %s' % rows[-1])
        sys.stdout.flush()
    missed = [r for r in rows if not r[1].startswith('caught')]
    print('%d seeded changes, %d missed' % (len(rows), len(missed)))
    return 1 if missed else 0


def main():
    ap = argparse.ArgumentParser()
    ap.add_argument('cmd', choices=['ingest', 'run'])
    ap.add_argument('args', nargs='*')
    ap.add_argument('--tier', default='quick')
    ap.add_argument('--seed', type=int)
    ap.add_argument('--also', default='', help='comma-separated further checks to run at ingest')
    a = ap.parse_args()
    global ALSO
    ALSO = [x for x in a.also.split(',') if x]
    if a.cmd == 'ingest':
        src, prop = a.args[0], a.args[1]
        sid = a.args[2] if len(a.args) > 2 else os.path.basename(os.path.normpath(src))
        return ingest(os.path.abspath(src), prop, sid)
    return rerun(a.args, a.tier, a.seed)


if __name__ == '__main__':
    sys.exit(main())
