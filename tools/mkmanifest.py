#!/usr/bin/env python3
"""Regenerates /verif/MANIFEST.json from the table below (keeps the file valid and the
per-check entries uniform).  Run after adding a check."""
import json, os

VERIF = os.path.dirname(os.path.dirname(os.path.abspath(__file__)))

CHECKS = {
    'C02': dict(
        category='exploration', design_ref='DESIGN.md section 4, C02',
        technique='deterministic simulation: seeded binding-stack histories (open/closed unify generators) checked step by step against a reference unifier model',
        text='Seeded search over histories of nested, still-open unifications on the real engine, each step compared with an independent '
             'Robinson unifier holding an explicit substitution stack: outcome, equality of both sides at the yield, most-generality and '
             'aliasing (canonical form of every pool variable), symmetry, at-most-once. Sampling, not proof; the right level because the '
             'property quantifies over term pairs x stacks of live generators, which only a driver that owns the generators can build. A tenth of the histories use big terms (lists up to 130 elements, 13-70-argument structures), terms kept and reused by the consumer, clear() under the open unifications and unifications whose stack overflows half-way.',
        note='Trusts the 150-line model unifier and the observer (reads Functor._name/_args); cyclic cases are skipped as unspecified; CPython 3.12 only.'),
    'C03': dict(
        category='fault_enumeration', design_ref='DESIGN.md section 4, C03',
        technique='deterministic simulation with fault injection: per sampled world, exhaustive enumeration of abandonment points (close/drop/throw after every k-th answer) and of raise points in user predicates; registry + per-query restore monitor + re-run oracle',
        text='For each seeded world (compiled program with cut, ;, ->, negation, once, call/N, findall, natives, dynamic facts, pre-bound query '
             'variables) the fault space is enumerated completely: every k in 0..#answers x {close, drop, throw} and every native invocation x '
             '{raise before first yield, raise on resumption}, abandonment through evaluate_bounded, and an independent generator over other variables suspended across the query\'s end (non-LIFO endings). After every fault: every engine Variable ever created (registry) is in its '
             'pre-query state, every nested query restored on its exhaustion path, dropped generators are finalised at once, and the re-run '
             'reproduces the fault-free answers. Worlds are sampled; fault placement per world is exhaustive.',
        note='Self-referential oracles only (no reference Prolog), so pure-semantics defects cannot raise alarms here. CPython refcount finalisation assumed; worlds that do not compile, build cyclic terms or exceed the line budget are discarded and counted.'),
    'C07': dict(
        category='exploration', design_ref='DESIGN.md section 4, C07',
        technique='deterministic simulation: seeded operation histories (all routes and goal forms, retract abandoned/suspended at arbitrary points) against an ordered-list reference model with full read-back after every step',
        text='Seeded histories of asserta/assertz/assert_fact/retract/retractall/clear/query over eight predicates (arities 0-3, two never asserted), '
             'every op through a seeded route (API, compiled wrapper, compiled inline goal) and form (inline or bound variable); retract generators '
             'are exhausted, abandoned after k answers by close or drop, or kept suspended while other predicates are changed (or the engine is cleared); stores of up to 70 facts, values incl. plain constants of several types, improper lists; goal objects reused with new bindings. Each op result and, '
             'after every op (in a third of the runs only every 4th op or at the end: a read-back can repair what an op left half-done), the complete contents of all predicates are compared with a list model, with all arguments unbound and with each argument bound to every value seen there; any exception is a violation.',
        note='Ground facts only and no same-predicate mutation during an enumeration (those are C13/C14), so every reading of the statement gives the same lists. Trusts the 60-line list model.'),
    'C08': dict(
        category='exploration', design_ref='DESIGN.md section 4, C08',
        technique='deterministic simulation with fault injection: seeded histories of register/load/assert/clear with injected load failures (syntax error, raise at statement k, I/O errors through a fake open) against a list-of-definitions reference model, full read-back after every step',
        text='Seeded histories of load (real compiler output: tagged answers, clause-local cuts, cross-snippet and native calls, several arities of a '
             'name; string or fake file; overwrite on/off), failing loads of six kinds, register_function in all three arity styles (also under '
             'reserved API names), assert_fact and clear. After every op, 14 name/arity pairs (defined, undefined, sibling arities, reserved) are '
             'read back and compared with a definition-table model (facts first, exact arity, variadic only as fallback, chain in load order with '
             'per-definition cuts, late binding), directly, through call/1, call/2 on a kept goal term and findall/3, and with the first argument bound when a predicate holds many facts; a failing load must raise and leave every read-back unchanged.',
        note='The model follows the code where the statement is silent (register_function on an existing key replaces the chain). File access of load_script_from_file goes through an in-memory fake; everything else is real.'),
    'C13': dict(
        category='exploration', design_ref='DESIGN.md section 4, C13',
        technique='deterministic simulation: seeded binding-stack histories with assert at arbitrary points and several simultaneously suspended uses of the same fact, against a copy-semantics reference model',
        text='A seeded scheduler drives a LIFO stack of open unifications and suspended uses of p/1, p/2 on the real engine and asserts terms over the '
             'pool variables at arbitrary points (bound before, after, through chains, inside structures; four assert routes incl. compiled code '
             'with the goal in a bound variable). Every answer of every use is compared with a model in which ASSERT stores the fully resolved term with '
             'fact-local variables and each use renames it apart - over the pattern and over every pool variable, so any aliasing between a fact, its '
             'uses and the asserting context is visible. Stores may be prefilled with 33-70 unrelated facts; selective retractall, asserts and uses that overflow the stack half-way are part of the histories. A third of the histories also store equal-but-different Python constants (1, True, 1.0; 0, False, 0.0, \'\', None) first and read them back by type and repr afterwards.',
        note='A use starts at its first next(); frames end LIFO; matches that would need cyclic terms end the run without verdict. Trusts model unifier + 60-line store model.'),
    'C14': dict(
        category='exploration', design_ref='DESIGN.md section 4, C14',
        technique='deterministic simulation: seeded interleavings of suspended query/retract enumerations with mutations of the same predicate, against a logical-update-view snapshot model; bounded liveness by executed-line budget',
        text='A seeded scheduler interleaves up to three simultaneously suspended enumerations (query or retract, any cursor position) with asserta/'
             'assertz/retract/retractall/clear and the compiled failure-driven update idioms on the same predicate; half of the mutations are aimed at the '
             'record next to a suspended cursor. Every step and, after every event, the whole store are compared with a snapshot model; the update '
             'idioms (plain failure-driven loops and the same loops driven by findall/3) must terminate within a stated number of executed lines, growing with the store (deterministic liveness verdict).',
        note='A goal starts at its first next(); ground facts only. Trusts the snapshot model (about 100 lines). Liveness bound 20000 lines against < 1500 needed.'),
    'C15': dict(
        category='exploration', design_ref='DESIGN.md section 4, C15',
        technique='deterministic simulation: seeded binding-order histories on a binding-stack machine; values saved by get_value are re-read after every later pop/close/advance and compared with a substitution-stack model; compiled programs through the collect idiom, findall and assert',
        text='Seeded histories bind a variable and the variables inside its value in every order (outer first, inner first, through chains), save '
             'get_value results at arbitrary points and re-read every ground saved value after each later event (pop by close/drop/resume, final '
             'unwinding): it must contain no Variable object and denote the same term. to_python of every pool variable is compared with the model at '
             'every event. 30% of the runs also compile a program whose body builds one term by a seeded permutation of unifications and consume it '
             'through the documented collect idiom (plain loop and evaluate_bounded with the limit striking inside the projection), findall/3 and assertz. Independent enumerations on the same or another engine are advanced and ended at any point of the history.',
        note='Non-ground saved values are checked at save time only; to_python is compared only where it is documented (proper lists). Trusts the substitution model and the to_python mapping in ypsim.terms.'),
    'C17': dict(
        category='fault_enumeration', design_ref='DESIGN.md section 4, C17',
        technique='deterministic simulation with fault injection: per sampled (query, caller depth, initial limit, holder mode, projection) every recursion limit in a 236-frame window and a projection raising at every k; prefix oracle = plain enumeration; limit/variable restoration',
        text='Per seeded world the fault space is enumerated completely: every recursion_limit from caller depth + 8 to + 243 (the interpreter raises '
             'wherever the search meets that depth: inside unify, a clause, get_value, a finally block, or the projection) and the projection raising '
             'at every k <= 6 with two exception types. Checked per call: no RecursionError escapes, the result is a prefix of the plain enumeration '
             '(and complete when the plain enumeration fits under a limit 12 frames lower), sys.getrecursionlimit() is what it was (also when the '
             'caller had a lower limit than the one requested), and every variable is unbound once the call has returned or its exception has been '
             'released, whether or not the caller still holds the query. Database-at-depth worlds (dynamic facts looked up, asserted, retracted where the limit strikes): the plain enumeration after every bounded call must give what it gave before; an engine exception may escape only if the plain enumeration ends in the same one.',
        note='Runs on one fresh thread per world so that the caller depth is a constant; limits are relative to the measured caller frame depth. Self-referential prefix oracle; engine exceptions other than RecursionError are outcomes.'),
    'C18': dict(
        category='exploration', design_ref='DESIGN.md section 4, C18',
        technique='deterministic simulation of the environment: pool of fresh interpreters with seeded PYTHONHASHSEED, fake clock/pid and seeded compile histories, pairs of compilations run concurrently in two baton-scheduled threads with seeded line-level pre-emption; byte comparison',
        text='Every run starts 2-4 real CPython processes, each under its own seeded string-hash seed, fake wall clock, fake pid and its own '
             'seeded history of other compilations, and requires byte-identical return values for equal (text, options) at every position in '
             'every process - also when another compilation runs at the same time in a second thread of the interpreter (seeded baton scheduler, the package\'s source lines as pre-emption points). Environment nondeterminism is the only thing the property depends on, so it is what the simulator owns here.',
        note='Real hash seeds only (no faked set orders); exception type is the outcome; debug stream written to outf is not compared (it prints object addresses by design and is not part of the returned text).'),
}
CHECKS['C20'] = dict(
    category='exploration', design_ref='DESIGN.md section 4, C20',
    technique='deterministic simulation with fault injection: twin engines (compiled vs. registered generator predicates) under one seeded consumer schedule with abandonment at every point, plus a raise injected at every native invocation/resumption',
    text='Every seeded world is built twice - all fact predicates compiled vs. a seeded subset supplied as registered generator functions (all three '
         'registration styles, yield True/False, some next to dynamic facts) - and both engines are driven by the same schedule: enumerate, abandon '
         'after every k by close and by drop, re-run. Observation logs must be identical. Then every native invocation gets a raise injected before '
         'its first yield and on resumption: the exception must reach the consumer as the same object, after a prefix of the compiled answers, '
         'leaving no binding - also when the query is consumed through evaluate_bounded (RuntimeError absorbed by contract). After clear() on both twins and reloading the all-compiled script both must agree again. Native arguments must be engine terms or Python constants.',
    note='Differential oracle (engine A is the model for B); the simulator contributes the lifecycle schedule and the faults. Worlds that hit a RecursionError on either side (cyclic terms) are discarded.')
CHECKS['C04'] = dict(
    category='exploration', design_ref='DESIGN.md section 4, C04',
    technique='deterministic simulation: seeded scheduler interleaving several engines\' histories at op, generator-step and thread (baton-passed real threads, line-level pre-emption via sys.settrace, recorded/replayed switch list) granularity; oracle = same history solo in a pristine forked process',
    text='2-3 engines with deliberately colliding vocabularies run seeded histories (compile+load, assert, retract, retractall, register, clear, atom '
         'identity, suspended query generators) under back-to-back, op-level and thread schedules; in thread mode each engine runs on a real thread '
         'and every executed line of engine, compiler pipeline and generated code is a pre-emption point at which a seeded scheduler may move the '
         'baton (decisions recorded, replayable, shrinkable). Each engine\'s observation log must equal the log of its history run alone in a pristine '
         'forked process; a thread that waits for something a parked engine holds is the verdict engine-blocked. History flavours: registration-heavy, 70-130 suspended queries, 13-ary facts, facts of plain constants, shared file-name labels. Same-engine mode interleaves next/close/drop of 2-4 queries over disjoint variables on one engine against their solo answers.',
    note='Line-granular, not bytecode-granular pre-emption; never pre-empts inside the ANTLR runtime. Self-referential oracle: exceptions are outcomes. evaluate_bounded excluded as the statement says.')

NOT_APPLICABLE = [
    ('C01', 'answer sequence is a pure function of (program text, query): no schedule, fault, clock or history in the statement; needs differential testing against a reference Prolog, not a simulator (DESIGN.md section 5)'),
    ('C05', 'pure function of (program with cuts, query); the generator-abandonment mechanism behind cut is exercised by C03, the answers need a reference semantics'),
    ('C06', 'pure function of (body expression tree, query) plus static parser precedence'),
    ('C09', 'pure function of (program using call/N, once, findall, =, \\=; query); binding restoration of the builtins is covered mechanically by C03\'s nested-restore oracle'),
    ('C10', 'accept/reject is a pure function of the input string; needs an independent recogniser and a corruption generator'),
    ('C11', 'loadability and defined names are a pure function of the accepted input'),
    ('C12', 'static property of compiler output (AST whitelist) and of hostile strings; nothing is scheduled or faulted'),
    ('C16', 'literal -> term -> to_python is a pure mapping'),
    ('C19', 'output is a deterministic function of (argv, file bytes, stdin bytes); the statement contains no I/O fault, ordering or environment dimension: a configuration-matrix differential test, not a simulation'),
]

PENDING = {p: 'claimed in DESIGN.md; its check is not built yet at this commit (work in progress), so nothing is claimed for it here' for p in
           []}   # property id -> reason, for claimed-in-design properties whose check is not built yet


def main():
    checks = []
    for pid in sorted(CHECKS):
        c = CHECKS[pid]
        checks.append({
            'property_id': pid,
            'quick_cmd': './check %s --tier quick' % pid,
            'thorough_cmd': './check %s --tier thorough' % pid,
            'evidence_file': 'evidence/%s.json' % pid,
            'replay_cmd_template': './check %s --replay {path}' % pid,
            'engine': 'ypsim',
            'level_claimed': {'category': c['category'], 'text': c['text'], 'design_ref': c['design_ref']},
            'level_note': c['note'],
            'technique': c['technique'],
        })
    na = [{'property_id': p, 'reason': r} for p, r in NOT_APPLICABLE]
    na += [{'property_id': p, 'reason': r} for p, r in sorted(PENDING.items()) if p not in CHECKS]
    m = {
        'version': 1,
        'setup_cmd': './check setup',
        'hooks': {
            'guard': 'YLDPROLOG_VERIF',
            'enable': 'nothing to enable: there are no source hooks. Every seam is taken at Python level by the harness (subclass of YP overriding variable()/query(), wrapped Variable.__init__, module attribute yldprolog.engine.open, sys.settrace, PYTHONHASHSEED of worker interpreters). Checks import yldprolog from /repo/src (YPSIM_REPO overrides) at every start, so they always run the current working tree.',
            'baseline_off_cmd': 'cd /repo && /venv/bin/python -m pytest -ra -q -p no:cacheprovider --timeout=900 --continue-on-collection-errors',
            'source_commits': [],
            'add_only': True,
        },
        'engines': [{'name': 'ypsim', 'path': 'ypsim/', 'serves_properties': sorted(CHECKS),
                     'kind_free_text': 'deterministic simulator written for this repository: seeded plans, fork-per-run executor, fault injection (abandonment, foreign-code raises, recursion limit, failing loads, thread pre-emption), reference models, ddmin shrinking, replay files'}],
        'checks': checks,
        'not_applicable': na,
        'notes': 'Deterministic simulation with fault injection; see DESIGN.md. Exit codes: 0 held, 1 violation (VIOLATION line + replay file), 2 harness error/timeout/nondeterminism. All checks honour VERIF_SEED. Genuine defects found and repaired are listed in known_findings.json (fixed entries suppress nothing).',
    }
    with open(os.path.join(VERIF, 'MANIFEST.json'), 'w') as f:
        json.dump(m, f, indent=1)
        f.write('\n')


if __name__ == '__main__':
    main()
