#!/bin/bash
# usage: ing.sh ID PROP [also]
id=$1; p=$2; also=$3; w=${id%-*}
cd /verif
if [ -n "$also" ]; then A="--also $also"; else A=""; fi
tools/seeded.py ingest /tmp/wt-$w/_seed/$id $p $A 2>&1 | python3 -c "
import sys,json
t=sys.stdin.read()
try:
    j=json.loads(t[t.index('{'):t.rindex('}')+1]); print(j['id'], 'confirmed' if j['confirmed'] else 'NOT-CONFIRMED', j['tests'][:10], 'clean',j['demo_clean_exit'],'patched',j['demo_patched_exit'], '| caught' if j['check']['caught'] else '| MISSED exit %d'%j['check']['exit'], j['check']['seconds'], [ (a['check'], a['caught']) for a in j.get('also',[])], j['check']['first_violation'][:140])
except Exception as e: print('ERR', t[:500])
"
