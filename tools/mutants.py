#!/venv/bin/python
"""Sensitivity self-test (DESIGN.md 7.2): apply one realistic breaking change to a
scratch copy of the repository, confirm the repository's own 61 tests still pass,
run the property's check against the copy and expect exit 1 with a reproducing
replay file.  The scratch copy lives under /tmp and is removed afterwards.

    tools/mutants.py                 all mutants
    tools/mutants.py C02             mutants of one property
    tools/mutants.py name [name...]  selected mutants
    options: --tier quick|thorough  --skip-tests  --keep  --patch FILE:PROP (a unified diff instead of a spec)
"""
import os, sys, json, shutil, subprocess, tempfile, time, argparse

HERE = os.path.dirname(os.path.abspath(__file__))
VERIF = os.path.dirname(HERE)
sys.path.insert(0, os.path.join(VERIF, 'mutants'))


def make_copy():
    d = tempfile.mkdtemp(prefix='ypsim-mut-')
    for name in ('src', 'tests', 'setup.py', 'setup.cfg', 'pyproject.toml', 'README.md', 'compiler', 'examples', 'doc'):
        p = os.path.join('/repo', name)
        if os.path.isdir(p):
            shutil.copytree(p, os.path.join(d, name), ignore=shutil.ignore_patterns('__pycache__', '*.egg-info'))
        elif os.path.exists(p):
            shutil.copy(p, os.path.join(d, name))
    return d


def run_tests(d):
    env = dict(os.environ, PYTHONPATH=os.path.join(d, 'src'), PYTHONDONTWRITEBYTECODE='1')
    r = subprocess.run(['/venv/bin/python', '-m', 'pytest', '-q', '-p', 'no:cacheprovider', '-x', '--timeout=300'],
                       cwd=d, env=env, capture_output=True, text=True)
    tail = (r.stdout.strip().splitlines() or [''])[-1]
    return r.returncode == 0 and '61 passed' in tail, tail


def apply_spec(d, m):
    for (rel, old, new) in m['edits']:
        p = os.path.join(d, rel)
        s = open(p).read()
        if s.count(old) != 1:
            raise ValueError('mutant %s: pattern occurs %d times in %s' % (m['name'], s.count(old), rel))
        open(p, 'w').write(s.replace(old, new))


def run_one(m, tier, skip_tests, keep):
    d = make_copy()
    try:
        if 'patch' in m:
            r = subprocess.run(['patch', '-p1', '-i', m['patch']], cwd=d, capture_output=True, text=True)
            if r.returncode != 0:
                return {'name': m['name'], 'error': 'patch failed: ' + r.stdout + r.stderr}
        else:
            try:
                apply_spec(d, m)
            except ValueError as e:
                return {'name': m['name'], 'property': m['property'], 'error': str(e)}
        res = {'name': m['name'], 'property': m['property']}
        if not skip_tests:
            ok, tail = run_tests(d)
            res['tests_pass'] = ok
            res['tests'] = tail
        t0 = time.time()
        outs = []
        caught = False
        for prop in m.get('checks', [m['property']]):
            env = dict(os.environ, YPSIM_REPO=d, YPSIM_SHRINK_S='8')
            r = subprocess.run([os.path.join(VERIF, 'check'), prop, '--tier', tier, '--no-selftest'], env=env,
                               capture_output=True, text=True)
            lines = [l for l in r.stdout.splitlines() if l.startswith(('VIOLATION', 'violation', 'HARNESS', 'KNOWN'))]
            outs.append({'check': prop, 'exit': r.returncode, 'lines': lines[:6]})
            if r.returncode == 1 and any(l.startswith('VIOLATION property=%s ' % prop) for l in lines):
                caught = True
                for l in lines:
                    if l.startswith('VIOLATION'):
                        f = l.split('replay=')[1]
                        if os.path.exists(f):
                            os.remove(f)
        res['caught'] = caught
        res['check_s'] = round(time.time() - t0, 1)
        res['checks'] = outs
        return res
    finally:
        if not keep:
            shutil.rmtree(d, ignore_errors=True)
        else:
            print('kept', d)


def main():
    ap = argparse.ArgumentParser()
    ap.add_argument('sel', nargs='*')
    ap.add_argument('--tier', default='quick')
    ap.add_argument('--skip-tests', action='store_true')
    ap.add_argument('--keep', action='store_true')
    ap.add_argument('--patch')
    a = ap.parse_args()
    if a.patch:
        f, prop = a.patch.rsplit(':', 1)
        ms = [{'name': os.path.basename(f), 'property': prop, 'patch': os.path.abspath(f)}]
    else:
        from specs import MUTANTS
        ms = [m for m in MUTANTS if not a.sel or m['name'] in a.sel or m['property'] in a.sel]
    bad = 0
    for m in ms:
        r = run_one(m, a.tier, a.skip_tests, a.keep)
        ok = r.get('caught') and r.get('tests_pass', True)
        bad += 0 if ok else 1
        print(json.dumps(r))
        sys.stdout.flush()
    print('%d mutants, %d not caught or not realistic' % (len(ms), bad))
    return 1 if bad else 0


if __name__ == '__main__':
    sys.exit(main())
