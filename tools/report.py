#!/usr/bin/env python3
"""Regenerates the 'which check catches which change' table in DESIGN.md (between the
markers <!-- seeded-table --> and <!-- /seeded-table -->) from seeded/*/meta.json."""
import os, json, re

VERIF = os.path.dirname(os.path.dirname(os.path.abspath(__file__)))


def first_line(text):
    for line in text.splitlines():
        line = line.strip().lstrip('#').strip()
        if line:
            return line
    return ''


def main():
    rows = []
    base = os.path.join(VERIF, 'seeded')
    for sid in sorted(os.listdir(base)):
        mp = os.path.join(base, sid, 'meta.json')
        if not os.path.exists(mp):
            continue
        m = json.load(open(mp))
        runs = m.get('checks_run', [])
        own = [c for c in runs if c['check'] == m['property']]
        caught_own = any(c['caught'] for c in own)
        others = sorted({c['check'] for c in runs if c['check'] != m['property'] and c['caught']})
        what = first_line(m.get('needs_to_manifest', ''))[:110]
        cls = ''
        for c in runs:
            if c['caught'] and c.get('first_violation'):
                mm = re.search(r'class=(\S+)', c['first_violation'])
                if mm:
                    cls = mm.group(1)
                    break
        verdict = 'caught by %s' % m['property'] if caught_own else ('**missed by %s**, caught by %s' % (m['property'], '+'.join(others)) if others else '**MISSED**')
        if caught_own and others:
            verdict += ' (also ' + '+'.join(others) + ')'
        rows.append('| %s | %s | %s | %s | %s |' % (sid, m['property'], what.replace('|', '/'), verdict, cls))
    table = ['| id | property | change (first line of the author\'s notes) | quick tier verdict | violation class |', '|---|---|---|---|---|'] + rows
    text = '\n'.join(table)
    p = os.path.join(VERIF, 'DESIGN.md')
    s = open(p).read()
    a, b = '<!-- seeded-table -->', '<!-- /seeded-table -->'
    if a in s:
        s = s[:s.index(a) + len(a)] + '\n' + text + '\n' + s[s.index(b):]
        open(p, 'w').write(s)
    # throughput table from the committed evidence files
    import glob
    rows2 = ['| check | tier | runs | cases | distinct non-trivial | wall | runs / hour |', '|---|---|---|---|---|---|---|']
    for f in sorted(glob.glob(os.path.join(VERIF, 'evidence', '*.json'))):
        e = json.load(open(f))
        c = e['coverage']
        rows2.append('| %s | %s | %d | %d | %d | %.0f s | %d |' % (e['property_id'], e['tier'], c.get('runs', 0), c['evaluations'], c['distinct_nontrivial'], e['wall_s'], c.get('runs_per_hour', 0)))
    s = open(p).read()
    a, b = '<!-- throughput-table -->', '<!-- /throughput-table -->'
    if a in s:
        s = s[:s.index(a) + len(a)] + '\n' + '\n'.join(rows2) + '\n' + s[s.index(b):]
        open(p, 'w').write(s)
    print(text)


if __name__ == '__main__':
    main()
