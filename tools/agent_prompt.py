#!/usr/bin/env python3
"""Prints the prompt given to an independent sub-agent that is to write seeded breaking changes.
usage: tools/agent_prompt.py <worktree-id> [flavour]     e.g.  C07f  different
The agent gets the property text, its scratch worktree and one-line summaries of the changes already
collected for that property (so that it writes something different) - nothing about the checks."""
import sys, json, glob
wid = sys.argv[1]
pid = wid[:3]
props = {}
for l in open('/verif/properties.jsonl'):
    p = json.loads(l)
    props[p['id']] = p
p = props[pid]
prop = "%s - %s\n\nStatement: %s\n\nQuantified over: %s\n" % (p['id'], p['title'], p['statement'], p['quantifier']['text'])
prev = []
for mp in sorted(glob.glob('/verif/seeded/*/meta.json')):
    m = json.load(open(mp))
    if m['property'] == pid:
        first = [x.strip().lstrip('#').strip() for x in m.get('needs_to_manifest', '').splitlines() if x.strip()]
        prev.append('  - ' + (first[0][:170] if first else m['id']))
flavour = sys.argv[2] if len(sys.argv) > 2 else ''
FLAVOURS = {
    'threshold': "\nADDITIONAL REQUIREMENT for this round: each of your two changes must depend on a *size, count or depth threshold* (for instance: more than N facts in a predicate, a term deeper or longer than N, more than N answers, the N-th call of something, N generators alive at once, N engines, N loads/registrations/clears, a name longer than N characters) with N somewhere between 5 and 200: below the threshold the behaviour must be exactly right, so that small examples never show it. Say in notes.md what the threshold is.\n",
    'edge': "\nADDITIONAL REQUIREMENT for this round: each of your two changes must only manifest for an *unusual but legal kind of value or shape*, never for the everyday ones: for instance Python constants used as terms (ints, floats, bools, None, strings, including 0, '' and values equal to each other like 1 and True or 1 and 1.0), the empty list, arity-0 predicates and atoms used as goals, a predicate that has both facts and rules, names with unusual characters or that look like something else ('[]', '.', names starting with an underscore or a capital letter in quotes), variables that occur twice in one term, terms that contain themselves partially (shared subterms), open lists, queries with no arguments, programs with no clauses or only facts, very long names. Everyday values (atoms a, b, small lists, arity 1-3) must behave exactly right. Say in notes.md which kind of value is needed.\n",
    'history': "\nADDITIONAL REQUIREMENT for this round: each of your two changes must only manifest after a specific *history of at least three engine operations in a particular order* on the same engine (for instance: load, clear, load again; assert, retract the last fact, assert again; register, load with overwrite, register again; query abandoned, then the same query again, then a third one; compile program A, then B, then A again) - the same operations in another order, or any two of them, must behave exactly right. Say in notes.md which history is needed.\n",
    'cooperating': "\nADDITIONAL REQUIREMENT for this round: each of your two changes must consist of TWO cooperating edits at two different sites (two functions, or the compiler and the engine, or a constructor and a method): each edit applied alone must leave the behaviour exactly right (say so in notes.md and check it), and only the two together break the property - for instance a cache added in one place and an invalidation forgotten in another, a field that one site starts to share and another site mutates, a fast path in one function that relies on an invariant another function no longer keeps. patch.diff contains both edits.\n",
    'interaction': "\nADDITIONAL REQUIREMENT for this round: each of your two changes must only manifest when TWO different features of the public API or of the Prolog subset are used together in one history (for instance: retract inside findall, a registered function that itself runs a query, clear() while a generator is suspended, evaluate_bounded over a query that asserts, call/N on a dynamic fact, two engines sharing terms, compiling while another engine runs); each feature on its own must behave exactly right. Say in notes.md which two.\n",
}
extra = ""
if prev:
    extra = ("\nIMPORTANT: the following breakages of this property have ALREADY been collected; yours must be clearly different from all of them "
             "(a different mechanism in a different place, not a variation):\n" + "\n".join(prev) +
             "\nLook for places nobody has touched yet: other functions that take part in upholding the property, interactions with other builtins, "
             "the compiler's generated code, option handling, error paths, unusual but legal API usage (several engines, threads for different engines, "
             "generators held for a long time, queries started from inside user predicates, re-registration, reload).\n")
extra += FLAVOURS.get(flavour, '')
print(f"""You are helping to test a verification tool by writing realistic *bugs* ("seeded defects") for a Python project, timhemel/yldprolog (a Python rewrite of Yield Prolog: an ANTLR-based compiler from a Prolog subset to Python generator code, plus a unification/backtracking engine in src/yldprolog/engine.py).

You have your own scratch git worktree of the repository at /tmp/wt-{wid} (work ONLY there; never touch /repo or /verif, never read anything under /verif). Run Python as `/venv/bin/python` with `PYTHONPATH=/tmp/wt-{wid}/src` so that your worktree's code is imported (check `yldprolog.__file__`). The existing test suite is run with:
    cd /tmp/wt-{wid} && PYTHONPATH=/tmp/wt-{wid}/src /venv/bin/python -m pytest -q -p no:cacheprovider
(61 tests, all pass on the unchanged tree). There is no network. Note: a clause body ending in `, fail` crashes this compiler, and call/N with the goal in a run-time bound *variable* raises AttributeError (both known, unrelated); avoid them in demos.

Here is a semantic property that the project is supposed to satisfy:

{prop}
{extra}
Your task: produce TWO different, independent changes to the source under /tmp/wt-{wid}/src/yldprolog/ (each as a separate patch against the unchanged worktree HEAD) that each BREAK this property while the code still imports/compiles and ALL 61 existing tests still pass. Make them the kind of change a developer could plausibly make (an "optimisation", a refactoring slip, a cache, a wrong boundary condition, a shortcut, module-level state introduced for convenience, two cooperating edits that each look fine alone) - not sabotage that ordinary use would expose at once. Prefer changes that need something SPECIFIC to manifest: a particular interleaving of suspended generators or threads, a fault/abandonment at a particular point, a multi-step sequence of operations, an unusual input shape, a particular history of earlier operations.

For each change k in (1, 2) create the directory /tmp/wt-{wid}/_seed/{wid}-k/ containing:
  - patch.diff : output of `git -C /tmp/wt-{wid} diff` for that change alone (must apply with `git apply` to the unchanged tree; only files under src/yldprolog/),
  - demo.py : a small standalone program (run as `PYTHONPATH=<tree>/src /venv/bin/python demo.py`) that exits 0 on the unchanged tree and exits non-zero (assertion failure or explicit sys.exit(1)) with the change applied, demonstrating the property violation through the public API; it must be deterministic (if threads are involved, force the interleaving deterministically, e.g. with events or sys.settrace, not with sleeps),
  - notes.md : first line = a one-sentence title of the change; then 5-15 lines: what was changed, why it breaks the property, what exactly is needed for it to manifest, and confirmation of what you ran.
Verify all of it yourself: (a) apply patch k alone -> 61 tests pass, demo.py fails; (b) `git -C /tmp/wt-{wid} checkout -- .` (unchanged tree) -> demo.py passes. Leave the worktree's tracked files UNCHANGED at the end (git checkout -- .), with only the untracked _seed/ directory added. Do not commit anything. In your final message, list the two changes in one line each.""")
