import random, sys, collections
from yldprolog.engine import YP, unify, get_value, Variable, Atom, Functor
sys.setrecursionlimit(10000)
def walk(t,s):
    while t[0]=='v' and t[1] in s: t=s[t[1]]
    return t
def occurs(i,t,s):
    t=walk(t,s)
    if t[0]=='v': return t[1]==i
    if t[0]=='f': return any(occurs(i,a,s) for a in t[2])
    return False
class Cyclic(Exception): pass
def munify(a,b,s):
    a=walk(a,s); b=walk(b,s)
    if a[0]=='v' and b[0]=='v' and a[1]==b[1]: return s
    if a[0]=='v':
        if occurs(a[1],b,s): raise Cyclic
        s=dict(s); s[a[1]]=b; return s
    if b[0]=='v':
        if occurs(b[1],a,s): raise Cyclic
        s=dict(s); s[b[1]]=a; return s
    if a[0]!=b[0]: return None
    if a[0] in 'ac': return s if a[1]==b[1] else None
    if a[1]!=b[1] or len(a[2])!=len(b[2]): return None
    for x,y in zip(a[2],b[2]):
        s=munify(x,y,s)
        if s is None: return None
    return s
def resolve(t,s):
    t=walk(t,s)
    if t[0]=='f': return ('f',t[1],tuple(resolve(a,s) for a in t[2]))
    return t
def rename(t,m,fresh):
    if t[0]=='v':
        if t[1] not in m: m[t[1]]=fresh()
        return ('v',m[t[1]])
    if t[0]=='f': return ('f',t[1],tuple(rename(a,m,fresh) for a in t[2]))
    return t
def canon(terms):
    m={}
    def c(t):
        if t[0]=='v': return ('v',m.setdefault(t[1],len(m)))
        if t[0]=='f': return ('f',t[1],tuple(c(a) for a in t[2]))
        return t
    return tuple(c(t) for t in terms)
def rnd_term(rng,nv,d):
    k=rng.random()
    if d==0 or k<0.4:
        k=rng.random()
        if k<0.55: return ('v',rng.randrange(nv))
        return ('a',rng.choice('ab'))
    n=rng.choice([1,2])
    return ('f',rng.choice('fg'),tuple(rnd_term(rng,nv,d-1) for _ in range(n)))
def run(seed):
    rng=random.Random(seed); yp=YP(); NV=4
    vs=[yp.variable() for _ in range(NV)]      # pool vars 0..NV-1 ; model var ids >= 100 are fresh
    allv=list(vs); nextid=[100]
    def fresh():
        nextid[0]+=1; return nextid[0]
    def build(t, extra):
        if t[0]=='v':
            if t[1]<NV: return vs[t[1]]
            return extra.setdefault(t[1], yp.variable())
        if t[0]=='a': return yp.atom(t[1])
        return yp.functor(t[1],[build(a,extra) for a in t[2]])
    def reify(x, ids):
        x=get_value(x)
        if isinstance(x,Variable): return ('v',ids.setdefault(id(x), len(ids)+1000))
        if isinstance(x,Atom): return ('a',x.name())
        return ('f',x._name,tuple(reify(a,ids) for a in x._args))
    s={}; stack=[]; facts=[]   # facts: list of model terms (fact-local var ids)
    uses=[]                    # live uses: dict(gen, patvars(engine), pat(model), snap, pos, sframe)
    for ev in range(rng.randrange(4,22)):
        k=rng.random()
        if k<0.25 and not uses:
            t1=rnd_term(rng,NV,2); t2=rnd_term(rng,NV,2)
            try: s2=munify(t1,t2,s)
            except Cyclic: continue
            g=iter(unify(build(t1,{}),build(t2,{})))
            try: next(g); ok=True
            except StopIteration: ok=False
            if ok!=(s2 is not None): return 'unify-outcome'
            if ok: stack.append((g,s)); s=s2
        elif k<0.4 and stack and not uses:
            g,s=stack.pop(); g.close()
        elif k<0.6:
            t=rnd_term(rng,NV,2)
            list(yp.query('assertz',[yp.functor('p',[build(t,{})])]))
            facts.append(rename(resolve(t,s),{},fresh))
        elif k<0.8 and len(uses)<2 and facts:
            pat=rename(rnd_term(rng,NV,2),{},fresh) if rng.random()<0.7 else rnd_term(rng,NV,2)
            extra={}; ep=build(pat,extra)
            uses.append(dict(gen=yp.query('p',[ep]), ep=ep, pat=pat, snap=None, pos=0, s0=None))
        elif uses:
            u=uses[-1]            # LIFO stepping (bindings nest)
            if u['s0'] is None: u['s0']=s; u['snap']=list(facts)
            s=u['s0']             # backtrack model to use start
            want=None
            while u['pos']<len(u['snap']):
                f=rename(u['snap'][u['pos']],{},fresh); u['pos']+=1
                try: s2=munify(u['pat'],f,s)
                except Cyclic: return None   # unspecified: abandon run
                if s2 is not None: want=s2; break
            try: next(u['gen']); got=True
            except StopIteration: got=False
            if got!=(want is not None): return 'use-outcome'
            if got:
                s=want
                ids={}
                g=canon([reify(u['ep'],ids)]+[reify(v,ids) for v in vs])
                w=canon([resolve(u['pat'],s)]+[resolve(('v',i),s) for i in range(NV)])
                if g!=w: return 'use-binding'
            else: uses.pop()
    return None
bad=collections.Counter(); N=int(sys.argv[1]) if len(sys.argv)>1 else 3000
for sd in range(N):
    try: r=run(sd)
    except RecursionError: r='recursion'
    if r: bad[r]+=1
print(dict(bad),'of',N)
