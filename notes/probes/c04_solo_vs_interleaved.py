import os, sys, json, random, threading, hashlib, gc, time
import yldprolog.engine as E, yldprolog.compiler as C, yldprolog.yp_generator as G, yldprolog.yp_prolog_visitor as V
from yldprolog.engine import YP, to_python, unify
from yldprolog.compiler import compile_prolog_from_string
if len(sys.argv)>3 and sys.argv[3]=='mut':
    # mutant: stores shared at class level (set once, instances reuse)
    _ps={}; _as={}
    oi=YP.__init__
    def init(self):
        oi(self); self._predicates_store=_ps
    YP.__init__=init
    oc=YP.clear
    def clear(self):
        oc(self); _ps.clear(); self._predicates_store=_ps
    YP.clear=clear
TRACED={E.__file__, C.__file__, G.__file__, V.__file__}
compile_prolog_from_string("w(X,Y) :- (a(X) -> b(Y) ; c(X)), \\+ d(Y), e([X|T]).")
def fork_run(fn):
    r,w=os.pipe(); pid=os.fork()
    if pid==0:
        os.close(r); gc.disable()
        try: out=json.dumps(fn())
        except BaseException as e:
            import traceback; out=json.dumps({'err':traceback.format_exc()})
        os.write(w,out.encode()); os._exit(0)
    os.close(w); data=b''
    while True:
        c=os.read(r,1<<16)
        if not c: break
        data+=c
    os.close(r); os.waitpid(pid,0); return json.loads(data)
SNIPS=["p(s1a).\np(s1b).\nq(X,Y) :- p(X), p(Y).", "p(s2a) :- !.\np(s2b).\nr(X) :- q(X,_).", "p(X) :- f(X).\nq(k,k)."]
def gen_history(rng, n):
    h=[]
    for _ in range(n):
        k=rng.random()
        if k<0.2: h.append(('load', rng.randrange(len(SNIPS)), rng.random()<0.5))
        elif k<0.4: h.append(('assert', rng.choice(['p','f']), rng.choice(['a','b','c']), rng.random()<0.5))
        elif k<0.5: h.append(('retract', rng.choice(['p','f']), rng.randrange(3)))
        elif k<0.55: h.append(('clear',))
        elif k<0.6: h.append(('atomid', rng.choice('ab')))
        elif k<0.75: h.append(('start', rng.choice(['p','f','r'])))
        elif k<0.95: h.append(('step', rng.randrange(4)))
        else: h.append(('close', rng.randrange(4)))
    return h
class EngineRun:
    def __init__(self, tag, hist):
        self.yp=YP(); self.hist=hist; self.pc=0; self.log=[]; self.tasks=[]; self.atoms={}; self.tag=tag
    def done(self): return self.pc>=len(self.hist)
    def step(self):
        op=self.hist[self.pc]; self.pc+=1
        try: self._step(op)
        except Exception as e: self.log.append([op[0],'EXC:'+type(e).__name__])
    def _step(self, op):
        yp=self.yp; r=None
        if op[0]=='load':
            yp.load_script_from_string(compile_prolog_from_string(SNIPS[op[1]]), fn=f'<sim:{self.tag}>', overwrite=op[2])
        elif op[0]=='assert':
            yp.assert_fact(yp.atom(op[1]), [yp.atom(op[2]+self.tag)], op[3])
        elif op[0]=='retract':
            X=yp.variable(); g=yp.query('retract',[yp.functor(op[1],[X])]); r=[]
            try:
                for i in range(op[2]): next(g); r.append(to_python(X))
            except StopIteration: pass
            g.close()
        elif op[0]=='clear': yp.clear()
        elif op[0]=='atomid':
            a=yp.atom(op[1]); r=(self.atoms.setdefault(op[1],a) is a)
            if not r: self.atoms[op[1]]=a
        elif op[0]=='start':
            X=yp.variable(); self.tasks.append([yp.query(op[1],[X]),X])
        elif op[0]=='step' and self.tasks:
            t=self.tasks[op[1]%len(self.tasks)]
            try: next(t[0]); r=to_python(t[1])
            except StopIteration: r='END'
        elif op[0]=='close' and self.tasks:
            t=self.tasks.pop(op[1]%len(self.tasks)); t[0].close()
        self.log.append([op[0], r])
def solo(tag,h):
    def f():
        e=EngineRun(tag,h)
        while not e.done(): e.step()
        return e.log
    return f
def interleaved_ops(hs, seed):
    def f():
        rng=random.Random(seed); es=[EngineRun(str(i),h) for i,h in enumerate(hs)]
        while True:
            live=[e for e in es if not e.done()]
            if not live: break
            rng.choice(live).step()
        return [e.log for e in es]
    return f
def interleaved_threads(hs, seed, p):
    def f():
        rng=random.Random(seed); n=len(hs)
        es=[EngineRun(str(i),h) for i,h in enumerate(hs)]
        evs=[threading.Event() for _ in range(n)]; alive=[True]*n; fin=threading.Event(); stats=[0,0]
        def point(tid):
            stats[0]+=1
            if rng.random()<p:
                c=[i for i in range(n) if alive[i]]; nx=rng.choice(c)
                if nx!=tid:
                    stats[1]+=1; evs[tid].clear(); evs[nx].set(); evs[tid].wait()
        def worker(tid):
            evs[tid].wait()
            def tr(frame,ev,arg):
                fn=frame.f_code.co_filename
                if fn in TRACED or fn.startswith('<sim:'):
                    def loc(frame,ev,arg):
                        if ev=='line': point(tid)
                        return loc
                    return loc
            sys.settrace(tr); err=None
            try:
                while not es[tid].done(): es[tid].step()
            except BaseException as e: err=e
            finally:
                sys.settrace(None); alive[tid]=False
                c=[i for i in range(n) if alive[i]]
                if c: evs[rng.choice(c)].set()
                else: fin.set()
            if err: es[tid].log.append(['ERR',repr(err)])
        ts=[threading.Thread(target=worker,args=(i,)) for i in range(n)]
        for t in ts: t.start()
        evs[rng.randrange(n)].set(); fin.wait()
        for t in ts: t.join()
        return [e.log for e in es]+[stats]
    return f
bad=0; t0=time.time(); N=int(sys.argv[2]) if len(sys.argv)>2 else 50
for seed in range(int(sys.argv[1]), int(sys.argv[1])+N):
    rng=random.Random(seed); ne=rng.choice([2,3])
    hs=[gen_history(rng, rng.randrange(5,25)) for _ in range(ne)]
    solos=[fork_run(solo(str(i),h)) for i,h in enumerate(hs)]
    a=fork_run(interleaved_ops(hs, seed)); b=fork_run(interleaved_threads(hs, seed, rng.choice([0.005,0.05,0.2])))
    b2=fork_run(interleaved_threads(hs, seed, 0.05)); b3=fork_run(interleaved_threads(hs, seed, 0.05))
    if b2!=b3: print('NONDET', seed)
    if isinstance(b,dict): print(b['err']); bad+=1; continue
    if a!=solos: bad+=1; print('ops mismatch', seed)
    if b[:ne]!=solos: bad+=1; print('thread mismatch', seed, b[-1])
print('bad',bad,'of',N,'time',time.time()-t0)
