import random, sys
from yldprolog.engine import YP, unify, get_value, Variable, Atom, Functor
sys.setrecursionlimit(10000)
# model terms: ('v',i) ('a',name) ('c',val) ('f',name,args)
def walk(t,s):
    while t[0]=='v' and t[1] in s: t=s[t[1]]
    return t
def occurs(i,t,s):
    t=walk(t,s)
    if t[0]=='v': return t[1]==i
    if t[0]=='f': return any(occurs(i,a,s) for a in t[2])
    return False
class Cyclic(Exception): pass
def munify(a,b,s):
    a=walk(a,s); b=walk(b,s)
    if a[0]=='v' and b[0]=='v' and a[1]==b[1]: return s
    if a[0]=='v':
        if occurs(a[1],b,s): raise Cyclic
        s=dict(s); s[a[1]]=b; return s
    if b[0]=='v':
        if occurs(b[1],a,s): raise Cyclic
        s=dict(s); s[b[1]]=a; return s
    if a[0]!=b[0]: return None
    if a[0] in 'ac': return s if a[1]==b[1] else None
    if a[1]!=b[1] or len(a[2])!=len(b[2]): return None
    for x,y in zip(a[2],b[2]):
        s=munify(x,y,s)
        if s is None: return None
    return s
def resolve(t,s):
    t=walk(t,s)
    if t[0]=='f': return ('f',t[1],tuple(resolve(a,s) for a in t[2]))
    return t
def canon(terms):
    m={}
    def c(t):
        if t[0]=='v': return ('v',m.setdefault(t[1],len(m)))
        if t[0]=='f': return ('f',t[1],tuple(c(a) for a in t[2]))
        return t
    return tuple(c(t) for t in terms)
def rnd_term(rng,nv,d):
    k=rng.random()
    if d==0 or k<0.35:
        k=rng.random()
        if k<0.5: return ('v',rng.randrange(nv))
        if k<0.8: return ('a',rng.choice('ab'))
        return ('c',rng.choice([0,1]))
    n=rng.choice([0,1,2,2,3])
    return ('f',rng.choice('fg'),tuple(rnd_term(rng,nv,d-1) for _ in range(n)))
def mutate(rng,t,nv,d):
    if rng.random()<0.25: return rnd_term(rng,nv,d)
    if t[0]=='f': return ('f',t[1],tuple(mutate(rng,a,nv,d-1) for a in t[2]))
    if rng.random()<0.3: return ('v',rng.randrange(nv))
    return t
yp=YP()
def build(t,vs):
    if t[0]=='v': return vs[t[1]]
    if t[0]=='a': return yp.atom(t[1])
    if t[0]=='c': return t[1]
    return yp.functor(t[1],[build(a,vs) for a in t[2]])
def reify(x,vs):
    x=get_value(x)
    if isinstance(x,Variable): return ('v',vs.index(x))
    if isinstance(x,Atom): return ('a',x.name())
    if isinstance(x,Functor): return ('f',x._name,tuple(reify(a,vs) for a in x._args))
    return ('c',x)
bad=0; n=0; cyc=0; succ=0
for seed in range(20000):
    rng=random.Random(seed); nv=rng.randrange(1,6)
    vs=[yp.variable() for _ in range(nv)]
    s={}; stack=[]
    for step in range(rng.randrange(1,8)):
        if stack and rng.random()<0.3:
            g,s=stack.pop(); g.close()
            got=canon([reify(v,vs) for v in vs]); want=canon([resolve(('v',i),s) for i in range(nv)])
            if got!=want: bad+=1; print('POP mismatch',seed); break
            continue
        t1=rnd_term(rng,nv,3); t2=mutate(rng,t1,nv,3) if rng.random()<0.7 else rnd_term(rng,nv,3)
        try: s2=munify(t1,t2,s)
        except Cyclic: cyc+=1; continue
        n+=1
        g=iter(unify(build(t1,vs),build(t2,vs)))
        try: next(g); ok=True
        except StopIteration: ok=False
        if ok!=(s2 is not None): bad+=1; print('outcome mismatch',seed,t1,t2,s,ok); break
        if ok:
            succ+=1
            got=canon([reify(v,vs) for v in vs]); want=canon([resolve(('v',i),s2) for i in range(nv)])
            if got!=want: bad+=1; print('mgu mismatch',seed,t1,t2,s,got,want); break
            stack.append((g,s)); s=s2
        else:
            got=canon([reify(v,vs) for v in vs]); want=canon([resolve(('v',i),s) for i in range(nv)])
            if got!=want: bad+=1; print('fail leaves trace',seed); break
    while stack: stack.pop()[0].close()
print('unifs',n,'succ',succ,'cyclic skipped',cyc,'bad',bad)
