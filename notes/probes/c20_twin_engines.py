import random, collections, sys, io, contextlib, gc
from yldprolog.compiler import compile_prolog_from_string
from yldprolog.engine import YP, to_python, get_value, Variable, Atom, Functor, unify
gc.disable()
def obs1(x, m, d=0):
    if d>60: raise RecursionError
    x=get_value(x)
    if isinstance(x,Variable): return ('v', m.setdefault(id(x), len(m)))
    if isinstance(x,Atom): return ('a',x.name())
    if isinstance(x,Functor): return ('f',x._name,tuple(obs1(a,m,d+1) for a in x._args))
    return ('c',x)
def obs(ts):
    m={}; return tuple(obs1(t,m) for t in ts)
class Boom(Exception): pass
rng=random.Random(int(sys.argv[1]) if len(sys.argv)>1 else 1)
leaves=['q(X)','r(Y)','s(X,Y)','true','!','X = Y','X \\= a','once(q(X))','call(q,X)','call(s,X,Y)','findall(Z,q(Z),L)','q(_)','Y = f(X,W)','s(W,Y)','t(X,W,Y)','findall(A-B,s(A,B),L)','\\+ s(X,Y)']
leaves=[l for l in leaves if 'A-B' not in l]
def body(d):
    if d==0 or rng.random()<0.3: return rng.choice(leaves)
    k=rng.random()
    if k<0.45: return f'{body(d-1)}, {body(d-1)}'
    if k<0.6: return f'({body(d-1)} ; {body(d-1)})'
    if k<0.75: return f'({body(d-1)} -> {body(d-1)} ; {body(d-1)})'
    if k<0.82: return f'({body(d-1)} -> {body(d-1)})'
    if k<0.92: return f'\\+ {body(d-1)}'
    return f'({body(d-1)})'
FACTS={('q',1):[('a',),('b',)], ('r',1):[(1,),(2,)], ('s',2):[('a',1),('b',2),('c',3),('V0','V0')], ('t',3):[('V0','g(V0,V1)','V1'),('a','b','c')]}
def fact_src(name, rows):
    out=[]
    for row in rows:
        out.append(f"{name}({','.join(str(x).replace('V0','P').replace('V1','Q') for x in row)}).")
    return '\n'.join(out)
def make_native(yp, rows, arity, yv, style, calls, fault):
    def mk(x, fresh):
        if isinstance(x,int): return x
        if x in ('V0','V1'): return fresh.setdefault(x, yp.variable())
        if x.startswith('g('): return yp.functor('g',[mk('V0',fresh),mk('V1',fresh)])
        return yp.atom(x)
    def impl(*args):
        calls[0]+=1; me=calls[0]
        if fault[0]==(me,'pre'): raise fault[1]
        for row in rows:
            fresh={}
            terms=[mk(x,fresh) for x in row]
            def rec(i):
                if i==len(args): yield yv
                else:
                    for _ in unify(args[i], terms[i]):
                        yield from rec(i+1)
            for v in rec(0):
                yield v
                if fault[0]==(me,'resume'): raise fault[1]
    if style=='variadic': return impl, -1
    f={1:lambda a: impl(a), 2:lambda a,b: impl(a,b), 3:lambda a,b,c: impl(a,b,c)}[arity]
    return f, (None if style=='inferred' else arity)
def run(yp, k, mode):
    Xs=[yp.variable(),yp.variable()]
    g=yp.query('p',Xs); ans=[]; end=None
    try:
        i=0
        while k is None or i<k:
            next(g); ans.append(obs(Xs)); i+=1
            if i>40: end='cap'; break
    except StopIteration: end='exhausted'
    except Boom as e: end=('boom', e)
    except RecursionError: end='exc:RecursionError'
    except Exception as e: end='exc:'+type(e).__name__
    if end is None or end=='cap':
        if mode=='close': g.close()
        else: del g
        end='abandoned'
    return ans,end
stats=collections.Counter(); bad=0
import signal
class Hang(BaseException): pass
def onalarm(*a): raise Hang()
signal.signal(signal.SIGALRM,onalarm)
def world(it):
    global bad
    b1=body(3); b2=body(2)
    signal.alarm(3)
    try:
        pass
    except Hang: pass
    rules=f'p(X,Y) :- {b1}.\np(X,Y) :- {b2}.\n'
    natives=[k for k in FACTS if rng.random()<0.6] or [('q',1)]
    srcA=rules+'\n'.join(fact_src(n,rows) for (n,a),rows in FACTS.items())
    srcB=rules+'\n'.join(fact_src(n,rows) for (n,a),rows in FACTS.items() if (n,a) not in natives)
    try:
        with contextlib.redirect_stderr(io.StringIO()):
            cA=compile_prolog_from_string(srcA); cB=compile_prolog_from_string(srcB)
    except Exception: stats['discard']+=1; return
    A=YP(); A.load_script_from_string(cA); B=YP(); B.load_script_from_string(cB)
    calls=[0]; fault=[None,None]
    for (n,a) in natives:
        f,ar=make_native(B, FACTS[(n,a)], a, rng.choice([True,False]), rng.choice(['inferred','explicit','variadic']), calls, fault)
        B.register_function(n, f, arity=ar)
    dyn=[k for k in FACTS if rng.random()<0.3]
    for (n,a) in dyn:
        for yp in (A,B): yp.assert_fact(yp.atom(n), [yp.atom('dyn')]*a)
    RA=run(A,None,'x'); calls[0]=0; RB=run(B,None,'x'); ncalls=calls[0]
    stats['worlds']+=1; stats['end:'+str(RA[1])]+=1
    if RA!=RB: bad+=1; print('TWIN MISMATCH',natives,dyn,'\n',srcA,'\n',RA,'\n',RB); return
    for k in range(len(RA[0])+1):
        for mode in ('close','drop'):
            if run(A,k,mode)!=run(B,k,mode): bad+=1; print('abandon mismatch',k,mode)
            stats['abandon']+=1
    for j in range(1,min(ncalls,10)+1):
        for ph in ('pre','resume'):
            e=Boom(); fault[0]=(j,ph); fault[1]=e; calls[0]=0
            a,end=run(B,None,'x'); fault[0]=None; stats['raise']+=1
            if isinstance(end,tuple):
                stats['raise-arrived']+=1
                if end[1] is not e: bad+=1; print('exception identity')
                if a!=RA[0][:len(a)]: bad+=1; print('prefix')
            elif end!=RA[1] or a!=RA[0]: bad+=1; print('raise-run differs', end, RA[1])
    calls[0]=0
    if run(B,None,'x')!=RA: bad+=1; print('rerun')


for it in range(int(sys.argv[2]) if len(sys.argv)>2 else 300):
    try: world(it)
    except Hang:
        stats['hang']+=1
    finally: signal.alarm(0)
print(dict(stats),'bad',bad)
