import random, sys, collections
from yldprolog.engine import YP, to_python
# C14 prototype: logical update view model vs engine; ground facts p/1 over atoms a..d; patterns: ground or variable
def run(seed, verbose=False):
    rng=random.Random(seed); yp=YP()
    store=[]          # model: list of (id, val)
    nid=[0]
    enums=[]          # live: dict(kind, gen, var, pat, snap(list of (id,val)), pos)
    log=[]
    def readback():
        X=yp.variable(); got=[to_python(X) for _ in yp.query('p',[X])]
        want=[v for _,v in store]
        return got==want, got, want
    def mk_pat():
        if rng.random()<0.6: return None
        return rng.choice('abcd')
    for ev in range(rng.randrange(3,25)):
        k=rng.random()
        if k<0.25 or not store and k<0.5:
            v=rng.choice('abcd'); front=rng.random()<0.3
            list(yp.query('asserta' if front else 'assertz',[yp.functor('p',[yp.atom(v)])]))
            nid[0]+=1
            store.insert(0,(nid[0],v)) if front else store.append((nid[0],v))
            log.append(('assert',v,front))
        elif k<0.45 and len(enums)<3:
            kind=rng.choice(['q','r']); pat=mk_pat(); X=yp.variable()
            arg=X if pat is None else yp.atom(pat)
            g=yp.query('p',[arg]) if kind=='q' else yp.query('retract',[yp.functor('p',[arg])])
            enums.append(dict(kind=kind,gen=g,var=X,pat=pat,snap=None,pos=0)); log.append(('start',kind,pat))
            step(enums[-1]) if False else None
        elif k<0.85 and enums:
            e=rng.choice(enums)
            if e['snap'] is None: e['snap']=list(store)      # goal starts at first step
            # model next
            want='END'
            while e['pos']<len(e['snap']):
                i,v=e['snap'][e['pos']]; e['pos']+=1
                if e['pat'] is not None and e['pat']!=v: continue
                if e['kind']=='r':
                    if not any(j==i for j,_ in store): continue
                    store[:]=[(j,w) for j,w in store if j!=i]
                want=v; break
            try: next(e['gen']); got=to_python(e['var']) if e['pat'] is None else e['pat']
            except StopIteration: got='END'
            log.append(('step',e['kind'],e['pat'],got,want))
            if got!=want: return ('step-mismatch',log)
            if got=='END': enums.remove(e)
        elif k<0.92 and enums:
            e=rng.choice(enums); e['gen'].close(); enums.remove(e); log.append(('close',))
        elif k<0.97:
            v=rng.choice('abcd'); list(yp.query('retractall',[yp.functor('p',[yp.atom(v)])]))
            store[:]=[(j,w) for j,w in store if w!=v]; log.append(('retractall',v))
        else:
            pass
        ok,got,want=readback()
        if not ok: return ('readback-mismatch',log,got,want)
    return None
bad=collections.Counter()
N=int(sys.argv[1]) if len(sys.argv)>1 else 3000
first=None
for s in range(N):
    try: r=run(s)
    except Exception as e: r=('exc:'+type(e).__name__,)
    if r:
        bad[r[0]]+=1
        if first is None: first=(s,r)
print(dict(bad), 'of', N)
if first: print(first[0], first[1][0], first[1][1][-6:])
