import sys, weakref, gc, time
import yldprolog.engine as E
from yldprolog.engine import YP, to_python
from yldprolog.compiler import compile_prolog_from_string
class Budget(BaseException): pass
def run_with_budget(f, n):
    cnt=[0]
    def tr(frame, ev, arg):
        fn=frame.f_code.co_filename
        if fn==E.__file__ or fn.startswith('<sim'):
            def loc(frame, ev, arg):
                if ev=='line':
                    cnt[0]+=1
                    if cnt[0]>n: raise Budget()
                return loc
            return loc
    sys.settrace(tr)
    try: return f(), cnt[0]
    except Budget: return 'BUDGET', cnt[0]
    finally: sys.settrace(None)
yp=YP(); yp.load_script_from_string(compile_prolog_from_string('''
t :- assertz(c(z)), upd.
upd :- retract(c(N)), assertz(c(s(N))), never(N).
drain(X) :- assertz(p(1)), assertz(p(2)), p(X), retract(p(X)), never(X).
'''), fn='<sim0>')
t=time.time()
print(run_with_budget(lambda: list(yp.query('t',[])), 20000), time.time()-t)
X=yp.variable()
print(run_with_budget(lambda: list(yp.query('drain',[X])), 20000))
print(to_python(X))
# weakref on generator + drop
g=yp.query('c',[X]); next(g); w=weakref.ref(g); print('bound', to_python(X) is not None)
del g; print('dead', w() is None, to_python(X))
