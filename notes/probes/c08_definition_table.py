import random, sys, collections, io
from yldprolog.compiler import compile_prolog_from_string as C
from yldprolog.engine import YP, to_python, unify
import yldprolog.engine as E
# snippets: list of (source, {(name,arity): answers-after-own-cut as list of tags or ('call',name)})
SN=[
 ("p(s0a).\np(s0b).\nq(s0q,s0r).", {('p',1):[['s0a'],['s0b']], ('q',2):[['s0q','s0r']]}),
 ("p(s1a) :- !.\np(s1b).", {('p',1):[['s1a']]}),
 ("p(s2a).\np(s2b,s2c).\nr(X) :- p(X).", {('p',1):[['s2a']], ('p',2):[['s2b','s2c']], ('r',1):'call-p1'}),
 ("q(X,Y) :- p(X), !, p(Y).\nr(s3r).", {('q',2):'q-cutp', ('r',1):[['s3r']]}),
 ("main(X) :- sub(X).", {('main',1):'call-sub1'}),
 ("sub(s5a).\nsub(s5b).", {('sub',1):[['s5a'],['s5b']]}),
]
CODE=[C(s) for s,_ in SN]
NAMES=[('p',1),('p',2),('q',2),('r',1),('main',1),('sub',1),('zz',1),('p',0),('p',3)]
FILES={}
class FakeOpen:
    def __init__(self, fn, mode='r'):
        if fn not in FILES: raise FileNotFoundError(fn)
        if FILES[fn] is None: raise PermissionError(fn)
        self.s=FILES[fn]
    def __enter__(self): return io.StringIO(self.s)
    def __exit__(self,*a): return False
E.open=FakeOpen
def run(seed):
    rng=random.Random(seed); yp=YP()
    facts=collections.defaultdict(list)       # (name,arity) -> list of rows
    defs=collections.defaultdict(list)        # (name,arity) -> list of defs ; def = list rows | special str | ('py',tag)
    var=collections.defaultdict(list)         # name -> list of variadic defs
    def answers(key, depth=0):
        if depth>6: return None
        out=[list(r) for r in facts[key]]
        ds=defs[key] if defs[key] else ( [('var',d) for d in var[key[0]]] )
        for d in ds:
            if isinstance(d,list): out+= [list(r) for r in d]
            elif d=='call-p1': out+=answers(('p',1),depth+1)
            elif d=='call-sub1': out+=answers(('sub',1),depth+1)
            elif d=='q-cutp':
                a=answers(('p',1),depth+1)
                if a: out+=[[a[0][0], y[0]] for y in a]
            elif d[0]=='py': out.append([d[1]]+[None]*(key[1]-1)) if key[1]>=1 else out.append([])
            elif d[0]=='var': out.append([d[1][1]]+[None]*(key[1]-1)) if key[1]>=1 else out.append([])
        return out
    def check(tag):
        for key in NAMES:
            vs=[yp.variable() for _ in range(key[1])]
            try: got=[[to_python(v) for v in vs] for _ in yp.query(key[0],vs)]
            except Exception as e: return ('exc',tag,key,repr(e))
            want=answers(key)
            if got!=want: return ('mismatch',tag,key,got,want)
    pyn=[0]
    for step in range(rng.randrange(3,18)):
        k=rng.random()
        if k<0.35:
            i=rng.randrange(len(SN)); ow=rng.random()<0.5; via_file=rng.random()<0.3
            if via_file:
                FILES['f.py']=CODE[i]; yp.load_script_from_file('f.py',overwrite=ow)
            else: yp.load_script_from_string(CODE[i],overwrite=ow)
            for key,d in SN[i][1].items():
                if ow: defs[key]=[d]
                else: defs[key]=defs[key]+[d]
            tag=('load',i,ow)
        elif k<0.5:
            i=rng.randrange(len(SN)); kind=rng.choice(['syntax','raise','nofile','perm'])
            try:
                if kind=='syntax': yp.load_script_from_string(CODE[i]+"\ndef (:\n",overwrite=rng.random()<0.5)
                elif kind=='raise':
                    parts=CODE[i].split('\ndef '); j=rng.randrange(1,len(parts)+1)
                    txt='\ndef '.join(parts[:j])+"\n1/0\n"+('\ndef '+'\ndef '.join(parts[j:]) if parts[j:] else '')
                    yp.load_script_from_string(txt,overwrite=rng.random()<0.5)
                elif kind=='nofile': FILES.pop('g.py',None); yp.load_script_from_file('g.py')
                else: FILES['h.py']=None; yp.load_script_from_file('h.py')
                return ('failing-load-did-not-raise',kind)
            except (SyntaxError,ZeroDivisionError,FileNotFoundError,PermissionError): pass
            tag=('loadfail',kind)
        elif k<0.7:
            name,ar=rng.choice([('p',1),('p',2),('sub',1),('zz',1),('p',0)]); style=rng.choice(['inferred','explicit','variadic'])
            pyn[0]+=1; t=f'py{pyn[0]}'
            def mk(t):
                def impl(*args):
                    if args:
                        for _ in unify(args[0], yp.atom(t)): yield rng_y
                    else: yield rng_y
                return impl
            rng_y=rng.choice([True,False]); impl=mk(t)
            if style=='variadic': yp.register_function(name, impl, arity=-1); var[name]=[('py',t)]
            else:
                f={0:(lambda i: (lambda: i()))(impl),1:(lambda i: (lambda a: i(a)))(impl),2:(lambda i: (lambda a,b: i(a,b)))(impl)}[ar]
                yp.register_function(name, f, arity=None if style=='inferred' else ar); defs[(name,ar)]=[('py',t)]
            tag=('reg',name,ar,style)
        elif k<0.9:
            name,ar=rng.choice([('p',1),('p',2),('sub',1),('p',0)]); row=[f'f{step}']*ar; app=rng.random()<0.7
            yp.assert_fact(yp.atom(name),[yp.atom(x) for x in row],app)
            facts[(name,ar)].append(row) if app else facts[(name,ar)].insert(0,row)
            tag=('assert',name,ar,app)
        else:
            yp.clear(); facts.clear(); defs.clear(); var.clear(); tag=('clear',)
        r=check(tag)
        if r: return r
    return None
bad=collections.Counter(); ex=None
for sd in range(int(sys.argv[1]) if len(sys.argv)>1 else 2000):
    r=run(sd)
    if r:
        bad[r[0]]+=1
        if ex is None: ex=(sd,r)
print(dict(bad), ex)
