import sys, random, collections
src=open(__import__('os').path.join(__import__('os').path.dirname(__file__),'c02_unify_vs_model.py')).read()
src=src[:src.index("bad=0; n=0; cyc=0; succ=0")]
exec(src)
from yldprolog.engine import to_python
def m2py(t):
    if t[0]=='v': return None
    if t[0] in 'ac': return t[1]
    return (t[1],[m2py(a) for a in t[2]])
def ground(t):
    if t[0]=='v': return False
    if t[0]=='f': return all(ground(a) for a in t[2])
    return True
def hasvar(x):
    if isinstance(x,Variable): return True
    if isinstance(x,Functor): return any(hasvar(a) for a in x._args)
    return False
def run(seed):
    rng=random.Random(seed); nv=rng.randrange(2,6)
    vs=[yp.variable() for _ in range(nv)]; s={}; stack=[]; saved=[]
    def check():
        for i,v in enumerate(vs):
            if to_python(v)!=m2py(resolve(('v',i),s)): return 'to_python-now'
        for val,py in saved:
            if hasvar(val): return 'saved-has-variable'
            if to_python(val)!=py: return 'saved-changed'
    for step in range(rng.randrange(2,14)):
        k=rng.random()
        if stack and k<0.3:
            g,s=stack.pop(); g.close()
        elif k<0.5:
            i=rng.randrange(nv); t=resolve(('v',i),s)
            if ground(t): saved.append((vs[i].get_value(), m2py(t)))
        else:
            # bias: bind var to structure containing vars (outer first), or bind inner var
            i=rng.randrange(nv)
            t2=rnd_term(rng,nv,2) if rng.random()<0.6 else ('a',rng.choice('ab'))
            t1=('v',i)
            try: s2=munify(t1,t2,s)
            except Cyclic: continue
            g=iter(unify(build(t1,vs),build(t2,vs)))
            try: next(g); ok=True
            except StopIteration: ok=False
            if ok!=(s2 is not None): return 'outcome'
            if ok: stack.append((g,s)); s=s2
        r=check()
        if r: return r
    while stack:
        g,s=stack.pop(); g.close()
        r=check()
        if r: return r
bad=collections.Counter()
for sd in range(int(sys.argv[1])):
    r=run(sd)
    if r: bad[r]+=1
print(dict(bad))
