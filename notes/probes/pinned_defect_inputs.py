import sys, traceback
from yldprolog.engine import YP, unify, to_python, get_value, Variable
from yldprolog.compiler import compile_prolog_from_string

def run(src, name, nargs, limit=10, show=False):
    try:
        code = compile_prolog_from_string(src)
    except BaseException as e:
        print("COMPILE-EXC", type(e).__name__, e); return
    if show: print(code)
    yp = YP()
    try:
        yp.load_script_from_string(code)
    except BaseException as e:
        print("LOAD-EXC", type(e).__name__, e); 
        if show: pass
        return
    vs = [yp.variable() for _ in range(nargs)]
    out = []
    try:
        for i, _ in enumerate(yp.query(name, vs)):
            out.append([to_python(v) for v in vs])
            if i+1 >= limit: out.append('...'); break
    except BaseException as e:
        print("RUN-EXC", type(e).__name__, e, out); return
    print(out)

cases = [
 ("p :- q, fail.\nq.", 'p', 0),
 ("p :- fail.", 'p', 0),
 ("p(X) :- q(X), fail.\nq(a).", 'p', 1),
 ("t(X) :- G = foo(X), call(G).\nfoo(a).", 't', 1),
 ("t(L) :- findall(X, p, L).\np.", 't', 1),
 ("t :- once(q).", 't', 0),
 ("t(X) :- once(q(X)).\nq(a).\nq(b).", 't', 1),
 ("t :- assertz(flag), retract(flag).", 't', 0),
 ("t :- retractall(p(_)).", 't', 0),
 ("t :- G = p(a), assertz(G), retract(G).", 't', 0),
 ("t(X) :- G = p(a), assertz(G), p(X).", 't', 1),
 ("t(Z) :- X = f(Y), Y = a, assertz(p(X)), p(f(Z)).", 't', 1),
 ("t :- X = f(Y), Y = a, assertz(p(X)), p(f(b)).", 't', 0),
 ("t :- assertz(p(_)), p(a), p(b).", 't', 0),
 ("t(X) :- assertz(p(1)), p(X), assertz(p(2)).", 't', 1),
 ("p(X) :- X = g(Y), Y = 1.\nt(L) :- findall(X, p(X), L).", 't', 1),
 ("foo(01).", 'foo', 1),
 ("foo(True) :- bar(True).\nbar(a).", 'foo', 1),
 ("'hello world'(a).", 'hello world', 1),
 ("t(X) :- ATOM_NIL = a, X = [].", 't', 1),
 ("a(X) :- b(X),, c(X).", 'a', 1),
 ("foo(a). ) garbage", 'foo', 1),
 ("foo(a). 'unterminated ...", 'foo', 1),
 ("foo(a) foo(b).", 'foo', 1),
 ("foo(a). # foo(b).", 'foo', 1),
]
for src, n, k in cases:
    print("-----", repr(src))
    run(src, n, k)
