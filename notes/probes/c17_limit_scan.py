import sys, gc, warnings
import yldprolog.engine as E
from yldprolog.engine import YP, unify, to_python, get_value, Variable
from yldprolog.compiler import compile_prolog_from_string
REG=[]
orig=Variable.__init__
def init(self):
    orig(self); REG.append(self)
Variable.__init__=init
def bound(): return [i for i,v in enumerate(REG) if v._is_bound]
src = '''
nat(z).
nat(s(X)) :- nat(X).
len([], z).
len([_|T], s(N)) :- len(T, N).
app([],L,L).
app([H|T],L,[H|R]) :- app(T,L,R).
loop(X) :- loop(X).
lr(X) :- lr(Y), X = a.
lr(b).
deep(X) :- nat(X), big(X).
big(s(s(s(s(s(s(s(s(s(s(s(s(s(s(s(s(s(s(s(s(_))))))))))))))))))))).
two(X,Y) :- nat(X), nat(Y).
'''
yp = YP(); yp.load_script_from_string(compile_prolog_from_string(src))
unraisable=[]
sys.unraisablehook=lambda u: unraisable.append((type(u.exc_value).__name__, str(u.object)[:60]))
bad=0
def nest(d, f):
    if d==0: return f()
    return nest(d-1,f)
for name, mk in [('nat', lambda: [yp.variable()]), ('loop', lambda:[yp.variable()]), ('lr', lambda:[yp.variable()]),
                 ('deep', lambda:[yp.variable()]), ('two', lambda:[yp.variable(),yp.variable()]),
                 ('app', lambda:[yp.variable(),yp.variable(),yp.makelist([yp.atom('a')]*3)]),
                 ('len', lambda:[yp.variable(),yp.variable()])]:
    for lim in range(25, 260):
      for d in (0, 7):
        del REG[:]
        args = mk()
        q = yp.query(name, args)
        before = sys.getrecursionlimit()
        try:
            r = nest(d, lambda: yp.evaluate_bounded(q, lambda _: [to_python(a) for a in args], recursion_limit=lim))
        except BaseException as e:
            print('ESCAPED', name, lim, d, type(e).__name__); bad+=1; continue
        b = bound()
        if b or sys.getrecursionlimit()!=before or unraisable:
            bad+=1
            print('BAD', name, lim, d, len(r), 'bound', len(b), 'limit', sys.getrecursionlimit(), unraisable[:2])
            del unraisable[:]
            sys.setrecursionlimit(before)
print('bad', bad)
