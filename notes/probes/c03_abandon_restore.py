import random, collections, sys, io, contextlib, weakref, gc
from yldprolog.compiler import compile_prolog_from_string
import yldprolog.engine as E
from yldprolog.engine import YP, to_python, get_value, Variable, Atom, Functor, unify
gc.disable()
REG=[]
def obs1(x, m):
    x=get_value(x)
    if isinstance(x,Variable): return ('v', m.setdefault(id(x), len(m)))
    if isinstance(x,Atom): return ('a',x.name())
    if isinstance(x,Functor): return ('f',x._name,tuple(obs1(a,m) for a in x._args))
    return ('c',x)
def obs(ts):
    m={}; return tuple(obs1(t,m) for t in ts)
def state(v):
    g=v.get_value()
    if g is v: return None
    return obs1(g, REGIDX)
class IdxMap(dict):
    def setdefault(self,k,d):
        return REGPOS.get(k, ('?',k))
REGPOS={}; REGIDX=IdxMap()
def snap(): return [state(v) for v in REG]
VIOL=[]
class SimYP(YP):
    def variable(self):
        v=super().variable(); REGPOS[id(v)]=len(REG); REG.append(v); return v
    def query(self,name,args):
        n=len(REG); s=snap(); ok=False
        try:
            yield from super().query(name,args); ok=True
        finally:
            if ok:
                s2=snap()
                if s2[:n]!=s or any(x is not None for x in s2[n:]): VIOL.append(('nested-restore',name))
class Boom(Exception): pass
rng=random.Random(int(sys.argv[1]) if len(sys.argv)>1 else 1)
leaves=['q(X)','r(Y)','s(X,Y)','true','!','X = Y','X \\= a','once(q(X))','call(q,X)','findall(Z,q(Z),L)','q(_)','n(X)','n(Y)','Y = f(X,W)','m(X,[X,b,Y])','s(W,Y)']
def body(d):
    if d==0 or rng.random()<0.3: return rng.choice(leaves)
    k=rng.random()
    if k<0.45: return f'{body(d-1)}, {body(d-1)}'
    if k<0.6: return f'({body(d-1)} ; {body(d-1)})'
    if k<0.75: return f'({body(d-1)} -> {body(d-1)} ; {body(d-1)})'
    if k<0.82: return f'({body(d-1)} -> {body(d-1)})'
    if k<0.92: return f'\\+ {body(d-1)}'
    return f'({body(d-1)})'
stats=collections.Counter()
def run(yp, Xs, k, mode, fault):
    yp._fault=fault; yp._calls=0
    g=yp.query('p',Xs); ans=[]; end=None
    try:
        i=0
        while k is None or i<k:
            next(g); ans.append(obs(Xs)); i+=1
            if i>40: end='cap'; break
    except StopIteration: end='exhausted'
    except Boom as e: end='boom'
    except Exception as e: end='exc:'+type(e).__name__
    if end is None or end=='cap':
        if mode=='close': g.close(); end='closed'
        elif mode=='drop':
            w=weakref.ref(g); del g
            if w() is not None: VIOL.append(('not-finalised',))
            end='dropped'
        elif mode=='throw':
            try: g.throw(Boom()); end='throw-swallowed'
            except Boom: end='thrown-back'
            except StopIteration: end='throw-stopiter'
        else: g.close(); end='closed'
    return ans,end
for it in range(int(sys.argv[2]) if len(sys.argv)>2 else 400):
    b1=body(3); b2=body(2)
    src=f'p(X,Y) :- {b1}.\np(X,Y) :- {b2}.\nq(a). q(b).\nr(1). r(2).\ns(a,1). s(b,2). s(c,3).\nm(X,[X|_]).\nm(X,[_|T]) :- m(X,T).\n'
    try:
        with contextlib.redirect_stderr(io.StringIO()): code=compile_prolog_from_string(src)
    except Exception: stats['discard-compile']+=1; continue
    del REG[:]; REGPOS.clear(); del VIOL[:]
    yp=SimYP()
    try: yp.load_script_from_string(code)
    except Exception: stats['discard-load']+=1; continue
    yp._fault=None; yp._calls=0
    def n(arg):
        yp._calls+=1; me=yp._calls
        if yp._fault==(me,'pre'): raise Boom()
        for v in ('a','c'):
            for _ in unify(arg, yp.atom(v)):
                yield rng_yield
            if yp._fault==(me,'resume'): raise Boom()
    rng_yield=rng.choice([True,False])
    yp.register_function('n', n)
    Xs=[yp.variable(),yp.variable()]
    pre=None
    if rng.random()<0.3:
        pre=unify(Xs[rng.randrange(2)], yp.atom(rng.choice('ab'))); next(pre)
    base=snap()
    R1=run(yp,Xs,None,'exhaust',None); ncalls=yp._calls
    def check(tag):
        s=snap()
        if s[:len(base)]!=base or any(x is not None for x in s[len(base):]): VIOL.append(('restore',tag))
    check('R1')
    n1=len(R1[0])
    for k in range(0,n1+1):
        for mode in ('close','drop','throw'):
            a,e=run(yp,Xs,k,mode,None); stats['abandon']+=1
            if a!=R1[0][:k]: VIOL.append(('rerun-differs',k,mode))
            if mode=='throw' and k>0 and e!='thrown-back': VIOL.append(('throw',e,k))
            check((k,mode))
    for j in range(1,min(ncalls,12)+1):
        for ph in ('pre','resume'):
            a,e=run(yp,Xs,None,'exhaust',(j,ph)); stats['user-raise']+=1; stats['end:'+e]+=1
            if e=='boom' and a!=R1[0][:len(a)]: VIOL.append(('prefix',j,ph))
            check((j,ph))
    RL=run(yp,Xs,None,'exhaust',None)
    if RL!=R1: VIOL.append(('rerun-last',))
    check('RL')
    if pre: pre.close()
    stats['worlds']+=1; stats['R1end:'+R1[1]]+=1
    if VIOL:
        print('VIOL',VIOL[:3],'\n',src); stats['violating']+=1
print(dict(stats))
