"""C17 - evaluate_bounded returns a prefix of the answers and restores the interpreter.
Sampled (program, query, caller depth, initial limit, holder mode, projection) x EVERY
recursion limit in a window x a projection raising at every k; prefix oracle = plain
enumeration; limit / variable restoration (DESIGN.md section 4, C17)."""
import io, sys, random, contextlib
from .. import core, terms as TM, progs
from ..seams import Sim

PROP = 'C17'
LEVEL = 'fault_enumeration'
CASES_ARE_COUNTED = True
TIERS = {'quick': {'runs': 650, 'budget_s': 55}, 'thorough': {'runs': 100000, 'budget_s': 900}}
RULE = ('one run = one seeded world: a query (library of finite-shallow, finite-deep, infinite-answer, non-terminating, left-recursive and doubly '
        'recursive programs with seeded list lengths, or a generated finite program), caller depth in {0,7,23}, initial process limit in {650,1000,3000, caller depth + 60, caller depth + 150}, '
        'query held by the caller or passed inline, projection = answer index or recursive to_python, registry of all variables on/off. Per world the '
        'fault space is enumerated completely: EVERY recursion_limit from (caller depth + 8) to (caller depth + 243) frames, and the projection '
        'raising at EVERY k <= 6 for two exception types (under four different limits, each followed by a fault-free call whose completeness is checked). A case = one evaluate_bounded call; non-trivial = the depth limit struck inside the search or '
        'the projection raised; distinct = hash of (query, offset of the limit above the caller, number of answers returned, fault)')
ASSUMPTIONS = [
    'one active thread (each run executes on one fresh thread so that the caller depth is a constant); the caller\'s own stack is shallower than every limit used (the statement\'s scope)',
    'recursion limits are expressed relative to the measured depth of the calling frame, so results do not depend on how deep the harness itself is',
    'completeness is demanded only if the plain enumeration, run by the harness from the same depth, finishes under a limit 12 frames lower (margin for evaluate_bounded\'s own frame and the projection)',
    'projection exceptions that are RuntimeError subclasses are not injected (the function\'s contract swallows RuntimeError)',
    'variables are inspected after the call returned or its exception was handled and released',
]
COMPONENTS = {'real': ['yldprolog.engine evaluate_bounded, query, generated clause code', 'sys.setrecursionlimit / CPython recursion accounting'],
              'stub': ['caller (harness frames of seeded depth)', 'projection functions with raise switches'],
              'oracle': ['self-referential: plain enumeration of the same query under a high limit; sys.getrecursionlimit(); get_value of every (registered) variable']}
REQUIRED_PROBES = ('wrapped_in_plain_iterator', 'answers_known_by_construction_compared', 'nested_bounded_call_from_projection', 'database_at_depth_worlds', 'completeness_checked_after_projection_fault', 'limit_struck_in_search', 'complete_within_limit', 'proj_raise_fired', 'held_by_caller', 'inline_query', 'proj_overflow_or_recursive',
                   'initial_limit_below_given_limit')

HIGH_LIMIT = 4000      # limit in force for the reference enumeration and the harness itself
WALL_CAP_S = 90
NO_RERUN = True          # the line tracer's own frames would shift where the depth limit strikes
CRASH_CLASS = 'interpreter-aborted'     # a run that kills the interpreter (stack overflow abort) is a verdict here
WINDOW = (8, 243)
MARGIN = 12
LIB_SRC = '''
nat(z).
nat(s(X)) :- nat(X).
len([], z).
len([_|T], s(N)) :- len(T, N).
app([],L,L).
app([H|T],L,[H|R]) :- app(T,L,R).
loop(X) :- loop(X).
lr(X) :- lr(Y), X = a.
lr(b).
deep(X) :- nat(X), big(X).
big(s(s(s(s(s(s(s(s(s(s(s(s(s(s(s(s(s(s(s(s(_))))))))))))))))))))).
two(X,Y) :- nat(X), nat(Y).
fin(a).
fin(b).
fin(f(X)) :- fin2(X).
fin2(c).
fin2(d).
mem(X,[X|_]).
mem(X,[_|T]) :- mem(X,T).
both(X,Y) :- mem(X,[a,b,c]), nat(Y).
cutnat(X) :- nat(X), !.
ite(X) :- ( nat(X), big(X) -> true ; X = none ).
firstfin(X) :- fin(X), !.
viacut(X) :- firstfin(X).
viacut(z).
viacut2(X) :- cutnat(X).
viacut2(X) :- fin(X).
fm(L) :- findall(X, mem(X,[a,b,c]), L).
fl(L,Xs) :- findall(X, mem(X,Xs), L).
dl([], C) :- colour(C).
dl([_|T], C) :- dl(T, C).
dcol(C) :- colour(C).
dgrow(N) :- assertz(seen(N)), dgrow(s(N)).
dkeep(L) :- assertz(item(L)).
dkeep2(L, X) :- len(L, N), assertz(item(N)), X = ok.
dret([], C) :- retract(colour(C)), assertz(colour(C)).
dret([_|T], C) :- dret(T, C).
num(1).
num(2).
num(0).
numq(X,Y) :- num(X), num(Y).
dn(z).
dn(s(N)) :- dn(N).
cand(a, z).
cand(b, s(s(s(s(s(s(s(s(s(s(s(s(s(s(s(s(s(s(s(s(s(s(s(s(s(s(s(s(s(s(s(s(s(s(s(s(s(s(s(s(z))))))))))))))))))))))))))))))))))))))))).
cand(c, z).
pick(X) :- cand(X,T), once(dn(T)).
pickn(X) :- cand(X,T), \\+ \\+ dn(T).
col3(red).
col3(green).
col3(blue).
al(z, X) :- col3(X).
al(s(N), X) :- X = Y, al(N, Y).
''' + ''.join('g%02d.\n' % i for i in range(70)) + ''.join('mg%d :- %s.\n' % (j, ', '.join('g%02d' % i for i in range(14 * j, 14 * j + 14))) for j in range(5)) + '''many(X) :- mg0, mg1, mg2, mg3, mg4, X = done.
'''
# (a single clause with 70 goals cannot be loaded: the generated code nests one block per goal and CPython allows 20)
# queries whose answers (for their LAST argument) are known by construction, independently of any enumeration
KNOWN = {'pick': ['a', 'b', 'c'], 'pickn': ['a', 'b', 'c'], 'num': [1, 2, 0], 'many': ['done'], 'al': ['red', 'green', 'blue'], 'fin': ['a', 'b', ('f', ['c']), ('f', ['d'])], 'viacut': ['a', 'z']}
DYN_QUERIES = ('dl', 'dgrow', 'dkeep', 'dkeep2', 'dret', 'colour', 'dcol', 'own')
_LIB = None


def prewarm():
    global _LIB
    if _LIB is None:
        from yldprolog.compiler import compile_prolog_from_string
        with contextlib.redirect_stderr(io.StringIO()):
            _LIB = compile_prolog_from_string(LIB_SRC)
    progs.prewarm_compiler(30)


def lst(n, x=('a', 'a')):
    return TM.J(TM.mklist([x] * n))


def gen(seed, tier):
    rng = random.Random(seed)
    V = lambda i: ['v', i]
    if rng.random() < 0.7:
        n = rng.choice((0, 1, 3, 8, 20, 40, 60))
        q = rng.choice([
            ['nat', [V(0)]], ['loop', [V(0)]], ['lr', [V(0)]], ['deep', [V(0)]], ['two', [V(0), V(1)]],
            ['app', [V(0), V(1), lst(n % 9)]], ['len', [lst(n), V(0)]], ['len', [V(0), V(1)]], ['fin', [V(0)]],
            ['mem', [V(0), lst(n, ('a', 'b'))]], ['both', [V(0), V(1)]], ['cutnat', [V(0)]], ['ite', [V(0)]],
            ['nat', [['f', 's', [['f', 's', [V(0)]]]]]], ['undefined_pred', [V(0)]], ['num', [V(0)]], ['numq', [V(0), V(1)]], ['pick', [V(0)]], ['pickn', [V(0)]], ['viacut', [V(0)]], ['viacut2', [V(0)]], ['fm', [V(0)]], ['fl', [V(0), lst(n, ('a', 'b'))]], ['fl', [V(0), lst(max(n, 8), ('a', 'c'))]],
        ])
        if rng.random() < 0.12:
            # a clause with 70 different goals; a variable aliased through k levels of recursion (answers known by construction)
            k_ = rng.choice((3, 13, 14, 20))
            t_ = ['a', 'z']
            for _ in range(k_):
                t_ = ['f', 's', [t_]]
            q = rng.choice([['many', [V(0)]], ['al', [t_, V(0)]], ['al', [t_, V(0)]]])
        if rng.random() < 0.15:
            # the database at depth: dynamic facts looked up, asserted and retracted where the limit strikes
            q = rng.choice([['dl', [lst(n), ['a', 'red']]], ['dl', [lst(n), ['a', 'red']]], ['dl', [lst(n), V(0)]], ['dgrow', [['a', 'z']]], ['dkeep', [lst(max(n, 20))]],
                            ['dkeep2', [lst(n), V(0)]], ['dret', [lst(n), ['a', 'green']]],
                            ['colour', [['a', 'red']]], ['dcol', [['a', 'red']]], ['colour', [V(0)]],
                            # a dynamic fact whose first argument binds a query variable and whose second is long enough to overflow
                            ['own', [V(0), V(1)]], ['own', [V(0), V(1)]], ['own', [V(0), lst(70)]]])
        world = None
    else:
        world = progs.gen_world(rng, rich=rng.random() < 0.6, natives=False, max_depth=2)
        world['dynamic'] = []
        world['prebind'] = []
        q = world['query']
    plan = {'world': world, 'query': q, 'd': rng.choice((0, 7, 23)), 'L0': rng.choice((650, 1000, 3000, ['rel', 60], ['rel', 150])), 'held': rng.choice((True, True, True, False, False, 'chain', 'islice')),
            'proj': rng.choice(('index', 'index', 'to_python', 'nested')), 'registry': rng.random() < 0.5,
            'limits': 'window', 'proj_faults': 'all'}
    if plan['held'] in ('chain', 'islice') and isinstance(plan['L0'], list):
        # evaluate_bounded cannot close an iterator that has no close(): the wrapped query is released when the caller
        # drops the wrapper, under the caller's own limit - which must then be high enough for the unwinding (with the
        # bare generator evaluate_bounded does the closing itself, under the more generous of the two limits)
        plan['L0'] = 1000
    return plan


def sample_view(plan):
    v = dict(plan)
    if plan['world']:
        v['world'] = {'rules': plan['world']['rules']}
    v['query'] = '%s(%s)' % (plan['query'][0], ','.join(TM.show(TM.T(t)) for t in plan['query'][1]))
    return v


def frame_depth():
    f = sys._getframe(1)
    n = 0
    while f is not None:
        n += 1
        f = f.f_back
    return n


def nest(d, f):
    if d == 0:
        return f()
    return nest(d - 1, f)


class ProjFault(KeyError):
    pass


def execute(plan):
    # on a fresh thread the caller's depth is the same in the fan-out, in shrinking and in replay
    return core.run_in_fresh_thread(_execute, plan)


def _execute(plan):
    from yldprolog.engine import YP, to_python
    from yldprolog.compiler import compile_prolog_from_string
    prewarm()
    log = core.Log(keep=plan.get('_keep', False))
    sim = Sim()
    if plan['registry']:
        sim.install_registry()
    yp = YP()
    if plan['world']:
        try:
            with contextlib.redirect_stderr(io.StringIO()):
                code = compile_prolog_from_string(progs.world_source(plan['world']))
            yp.load_script_from_string(code, fn='<sim:world>')
        except Exception:
            return log.result(discard='compile-or-load')
    else:
        yp.load_script_from_string(_LIB, fn='<sim:lib>')
    name, targs = plan['query']
    dyn = name in DYN_QUERIES
    if dyn:
        for c_ in ('red', 'green', 'blue', 'red'):
            yp.assert_fact(yp.atom('colour'), [yp.atom(c_)])
        yp.assert_fact(yp.atom('own'), [yp.atom('ann'), TM.build(yp, TM.T(lst(3)), {})])
        yp.assert_fact(yp.atom('own'), [yp.atom('tom'), TM.build(yp, TM.T(lst(70)), {})])
        yp.assert_fact(yp.atom('own'), [yp.functor('f', [yp.atom('x')]), TM.build(yp, TM.T(lst(40)), {})])
        log.count('database_at_depth_worlds')
    counter = [0]
    for i_ in (1, 2):
        yp.assert_fact(yp.atom('nb__'), [i_])
    nested_bad = []
    qvars = {}
    qargs = [TM.build(yp, TM.T(t), qvars) for t in targs]
    allvars = list(qvars.values())
    d, held, projkind = plan['d'], plan['held'], plan['proj']
    REF_CAP = 600
    unraisable = []
    sys.unraisablehook = lambda u: unraisable.append(type(u.exc_value).__name__)

    def project_value():
        return core.jsonable([to_python(a) for a in qargs])

    # reference: plain enumeration under a high limit (lazily extended)
    sys.setrecursionlimit(HIGH_LIMIT)
    ref = {'ans': [], 'end': None}
    if name == 'dgrow':
        # by construction: no answers, unbounded depth (the engine needs minutes to get 4000 frames deep here: every
        # level resolves and copies a term one level larger)
        ref = {'ans': [], 'end': 'too-deep-for-reference'}

    def ref_upto(n):
        """the first n reference answers; the reference enumeration is re-run from the start and
        closed each time (it must not stay suspended on the query variables)"""
        if len(ref['ans']) >= n or ref['end'] is not None:
            return ref['ans'][:n]
        want = max(n, 2 * len(ref['ans']), 8)
        ans, end = [], None
        g = yp.query(name, qargs)
        try:
            while len(ans) < want:
                next(g)
                ans.append(project_value() if projkind == 'to_python' else len(ans))
                if len(ans) >= REF_CAP:
                    end = 'cap'
                    break
        except StopIteration:
            end = 'exhausted'
        except RecursionError:
            end = 'too-deep-for-reference'
        except Exception as e:
            end = 'exc:' + type(e).__name__
        if hasattr(g, 'close'):
            g.close()
        del g
        ref['ans'], ref['end'] = ans, end
        return ans[:n]

    def abs_l0():
        """the process-wide limit in force when the caller calls evaluate_bounded"""
        l0 = plan['L0']
        if isinstance(l0, list):
            return frame_depth() + d + l0[1]
        return l0

    def bound_vars():
        vs = sim.reg if plan['registry'] else allvars
        out = []
        for i, v in enumerate(vs):
            try:
                if v.get_value() is not v:
                    out.append(i)
            except RecursionError:          # bound to a cyclic term: certainly bound
                out.append(i)
        return out

    def one_call(offset, fault):
        """one evaluate_bounded call under one fault; returns a violation (class, detail) or None"""
        state = {'n': 0, 'fired': False, 'exc': None}

        def proj(x):
            k = state['n']
            state['n'] += 1
            if fault is not None and fault[0] == k:
                state['fired'] = True
                state['exc'] = ProjFault('injected') if fault[1] == 'KeyError' else core.Boom('injected')
                raise state['exc']
            if projkind == 'nested':
                # the projection makes a bounded call of its own on the same engine (re-entrant use)
                v_ = yp.variable()
                inner = yp.evaluate_bounded(yp.query('nb__', [v_]), lambda _: 7, recursion_limit=frame_depth() + 60)
                log.count('nested_bounded_call_from_projection')
                if inner != [7, 7]:
                    nested_bad.append(inner)
            return project_value() if projkind == 'to_python' else k
        out = {}

        def call():
            base = frame_depth()
            limit = base + offset
            out['limit_vs_L0'] = limit > L0
            try:
                if held in ('chain', 'islice'):
                    # the query wrapped in a plain iterator (no close() of its own), passed inline
                    import itertools
                    wq = itertools.chain(yp.query(name, qargs)) if held == 'chain' else itertools.islice(yp.query(name, qargs), 1000000)
                    out['result'] = yp.evaluate_bounded(wq, proj, recursion_limit=limit)
                    del wq
                elif held:
                    q = yp.query(name, qargs)
                    out['q'] = q
                    out['result'] = yp.evaluate_bounded(q, proj, recursion_limit=limit)
                else:
                    out['result'] = yp.evaluate_bounded(yp.query(name, qargs), proj, recursion_limit=limit)
            except RecursionError:
                out['escaped'] = 'RecursionError'
            except (ProjFault, core.Boom) as e:
                out['escaped'] = 'injected' if e is state['exc'] else 'injected-other-object'
            except Exception as e:
                out['escaped'] = 'exc:' + type(e).__name__
            out['limit_after'] = sys.getrecursionlimit()
        L0 = abs_l0()
        sys.setrecursionlimit(L0)
        try:
            nest(d, call)
        finally:
            sys.setrecursionlimit(HIGH_LIMIT)
        res = out.get('result')
        state['exc'] = None          # the caller has handled and released the exception
        tag = {'limit_offset': offset, 'fault': fault}
        esc = out.get('escaped')
        log.ev('call', offset, fault, esc, None if res is None else len(res), out['limit_after'] - L0)
        if out.get('limit_vs_L0'):
            log.count('initial_limit_below_given_limit')
        if esc == 'RecursionError':
            return 'recursion-error-escapes', tag
        if nested_bad:
            return 'nested-call-incomplete', dict(tag, inner_returned=core.jsonable(nested_bad[0]), note='a bounded call made by the projection on the same engine, 60 frames of its own, over two facts')
        if out['limit_after'] != L0:
            return 'limit-not-restored', dict(tag, initial=plan['L0'], after_minus_before=out['limit_after'] - L0, escaped=esc)
        if state['fired']:
            log.count('proj_raise_fired')
            if esc != 'injected':
                log.count('projection_exception_not_propagated')     # not demanded by the statement: an outcome
        # the exception (if any) has been handled and released; the caller may still hold the query
        b = bound_vars()
        if b:
            return 'variables-left-bound', dict(tag, bound=len(b), query_held_by_caller=held, escaped=esc, returned=None if res is None else len(res))
        if unraisable:
            return 'exception-in-finaliser', dict(tag, unraisable=unraisable[:3])
        if esc is not None and esc != 'injected':
            # an exception of the engine's own (unknown predicate, ...) is an outcome - if the plain enumeration ends
            # in the same one.  If the plain enumeration runs to its end (or to the depth limit) without it, the
            # bounded call - which only ever executes a prefix of that search - has let the depth limit escape in disguise
            log.count('engine_exception_outcome')
            ref_upto(REF_CAP)
            if ref['end'] in ('exhausted', 'too-deep-for-reference'):
                return 'depth-error-escapes-as-other-exception', dict(tag, escaped=esc, plain_enumeration_ends=ref['end'])
            return None
        if res is not None:
            want = ref_upto(len(res) + 1)
            if res[:len(want)] != want[:len(res)] or (len(res) > len(want) and ref['end'] != 'cap'):
                return 'not-a-prefix', dict(tag, returned=len(res), reference=len(want), reference_end=ref['end'])
            struck = ref['end'] != 'exhausted' or len(res) < len(ref['ans'])
            if struck:
                log.count('limit_struck_in_search')
                if projkind == 'to_python':
                    log.count('proj_overflow_or_recursive')
                log.key((plan['query'][0], len(plan['query'][1]), offset, len(res), None))
            elif fault is None:
                log.count('complete_within_limit')
        if state['fired']:
            log.key((plan['query'][0], 'raise', fault[0], fault[1], held))
        return None

    def complete_under(offset):
        """does the plain enumeration, run by the harness from the same depth, finish under a
        limit MARGIN frames lower?  returns the number of answers or None"""
        out = {}

        def call():
            base = frame_depth()
            try:
                sys.setrecursionlimit(base + offset - MARGIN)
            except RecursionError:
                return
            try:
                n = 0
                for _ in yp.query(name, qargs):
                    n += 1
                    if n > REF_CAP:
                        return
                out['n'] = n
            except RecursionError:
                pass
            except Exception:
                pass
            finally:
                sys.setrecursionlimit(HIGH_LIMIT)
        sys.setrecursionlimit(abs_l0())
        try:
            nest(d, call)
        finally:
            sys.setrecursionlimit(HIGH_LIMIT)
        return out.get('n')

    def completeness(off, after_fault):
        """if the plain enumeration, run by the harness from the same depth, finishes under a limit MARGIN
        frames lower, evaluate_bounded with this limit must return every answer"""
        n = complete_under(off)
        if n is None:
            return None
        if ref['end'] == 'exhausted' and n != len(ref['ans']) and not side_effects:
            return ('answers-changed-after-bounded-calls', {'limit_offset': off, 'fault': after_fault, 'plain_enumeration_now': n, 'plain_enumeration_at_start': len(ref['ans']),
                                                            'note': 'the plain enumeration of the same query no longer gives the answers it gave before the bounded calls'})
        got = []
        sys.setrecursionlimit(abs_l0())
        try:
            def call2():
                base = frame_depth()
                got.append(yp.evaluate_bounded(yp.query(name, qargs), lambda x: 0, recursion_limit=base + off))
            nest(d, call2)
        except Exception:
            got.append(None)
        finally:
            sys.setrecursionlimit(HIGH_LIMIT)
        log.ev('complete', off, n, None if got[0] is None else len(got[0]), after_fault)
        if after_fault is not None:
            log.count('completeness_checked_after_projection_fault')
        if got[0] is None or len(got[0]) != n:
            return ('incomplete-within-limit', {'limit_offset': off, 'fault': after_fault, 'answers_under_lower_limit': n,
                                                'returned': None if got[0] is None else len(got[0]),
                                                'note': None if after_fault is None else 'checked right after the call in which the projection raised'})
        return None

    def intact(off):
        """the plain enumeration right after a bounded call (no limit in the way) gives what it gave at the start"""
        if ref['end'] != 'exhausted' or side_effects:
            return None
        n = 0
        g = yp.query(name, qargs)
        try:
            for _ in g:
                n += 1
                if n > REF_CAP:
                    break
        except Exception as e:
            n = 'exc:' + type(e).__name__
        if hasattr(g, 'close'):
            g.close()
        log.ev('intact', off, n)
        log.count('plain_enumeration_compared_after_bounded_call')
        if n != len(ref['ans']):
            return ('answers-changed-after-bounded-calls', {'limit_offset': off, 'fault': None, 'plain_enumeration_now': n, 'plain_enumeration_at_start': len(ref['ans']),
                                                            'note': 'the plain enumeration of the same query no longer gives the answers it gave before the bounded call'})
        return None
    def known_check(when):
        """a generous bounded call must return exactly the answers known by construction"""
        if name not in KNOWN or plan['world'] or not (targs and targs[-1][0] == 'v'):
            return None
        got = []
        sys.setrecursionlimit(abs_l0())
        try:
            def call3():
                base = frame_depth()
                got.append(yp.evaluate_bounded(yp.query(name, qargs), lambda _: to_python(qargs[-1]), recursion_limit=base + WINDOW[1] + 400))
            nest(d, call3)
        except Exception as e:
            got.append('exc:' + type(e).__name__)
        finally:
            sys.setrecursionlimit(HIGH_LIMIT)
        log.count('answers_known_by_construction_compared')
        log.ev('known', when, core.jsonable(got[0]) if not isinstance(got[0], str) else got[0])
        if core.jsonable(got[0]) != core.jsonable(KNOWN[name]):
            return ('answers-differ-from-known', {'limit_offset': WINDOW[1] + 400, 'fault': None, 'when': when, 'returned': core.jsonable(got[0]), 'known_by_construction': core.jsonable(KNOWN[name])})
        return None
    side_effects = name in ('dret',)      # (its answers are the same every time, but only if every earlier run completed)
    try:
        log.count('wrapped_in_plain_iterator' if held in ('chain', 'islice') else 'held_by_caller' if held else 'inline_query')
        ref_upto(8)
        v = known_check('before the window')
        if v is not None:
            log.violation(v[0], v[1])
            return log.result()
        offsets = list(range(2, WINDOW[1] + 1)) if plan['limits'] == 'window' else plan['limits']
        for off in offsets:
            log.count('cases')
            if dyn:
                # the facts change (a fact comes and goes) before every call: whatever the engine keeps per predicate is rebuilt during the call
                counter[0] += 1
                yp.assert_fact(yp.atom('colour'), [yp.atom('c%d' % counter[0])])
                for _ in yp.query('retractall', [yp.functor('colour', [yp.atom('c%d' % counter[0])])]):
                    pass
                for nm_ in ('seen', 'item'):
                    for _ in yp.query('retractall', [yp.functor(nm_, [yp.variable()])]):
                        pass
            v = one_call(off, None)
            if v is None and projkind == 'index' and off - MARGIN >= 4 and (off % 8 == 0 or plan['limits'] != 'window'):
                v = completeness(off, None)
            if v is None and dyn and name != 'dgrow':
                v = intact(off)
            if v is not None:
                log.violation(v[0], v[1])
                return log.result()
        # projection faults at several limits, each followed by a fault-free call at a generous limit: whatever
        # the faulted call left behind in the engine must not clamp or disturb the next one
        FOFFS = (WINDOW[1] + 200, 30, 60, 120)
        faults = ([[k, e, FOFFS[(k + i) % 4]] for k in range(0, 7) for i, e in enumerate(('KeyError', 'Boom'))]
                  if plan['proj_faults'] == 'all' else plan['proj_faults'])
        for fault in faults:
            log.count('cases')
            v = one_call(fault[2] if len(fault) > 2 else WINDOW[1] + 200, fault)
            if v is None:
                v = completeness(WINDOW[1] + 200, fault)
            if v is not None:
                log.violation(v[0], v[1])
                return log.result()
        v = known_check('after all faults')
        if v is not None:
            log.violation(v[0], v[1])
            return log.result()
    except (TM.TooDeep,):
        return log.result(discard='cyclic-term')
    return log.result()


def narrow(plan, viol):
    d = viol['detail']
    c = dict(plan)
    if d.get('fault') is not None:
        c['limits'] = []
        c['proj_faults'] = [d['fault']]
    else:
        c['limits'] = [d['limit_offset']]
        c['proj_faults'] = []
    return c


def simplify(plan):
    for k, v in (('d', 0), ('registry', False), ('L0', 1000), ('proj', 'index'), ('held', False)):
        if plan[k] != v:
            c = dict(plan)
            c[k] = v
            yield c
    if plan['world']:
        w = plan['world']
        for k in range(len(w['rules'])):
            c = dict(plan)
            c['world'] = dict(w, rules=w['rules'][:k] + w['rules'][k + 1:])
            yield c


def witness(plan, viol):
    d = viol['detail']
    return '%s: query %s held=%s proj=%s fault=%s' % (viol['class'], sample_view(plan)['query'], plan['held'], plan['proj'], d.get('fault'))
