"""C15 - answers are fully dereferenced and stay valid after backtracking.
Binding-stack machine with all binding orders; values saved by get_value are re-read
after pop / close / advance / exhaustion and compared with what they denoted when
saved; compiled programs with every order of the body's unifications through the
collect idiom, findall and assert (DESIGN.md section 4, C15)."""
import io, random, contextlib
from .. import core, terms as TM, progs
from ..machine import GenTask, Pool, end_task, simplify_ops_terms

PROP = 'C15'
LEVEL = 'exploration'
CASES_ARE_COUNTED = True
TIERS = {'quick': {'runs': 4000, 'budget_s': 50}, 'thorough': {'runs': 1000000, 'budget_s': 900}}
RULE = ('one run = one seeded history of NEWVAR / PUSH / POP(close|drop|resume) / SAVE(term) / FAULT (the recursion limit strikes inside get_value or to_python of a 600-deep term; handled) on one engine (half of the plans from the template '
        '"bind X to a term with variables first, bind those variables afterwards in a seeded order, directly or through chains, SAVE X, pop '
        'everything"), optionally followed by a compiled program p(X) whose body builds one ground term by a seeded permutation of unifications, '
        'consumed through the documented collect idiom, findall/3 and assertz. At every event to_python of every pool variable is compared with '
        'the model; every ground SAVE is re-read at every later event (must contain no Variable and denote the same term). A case = one SAVE or '
        'one program answer; non-trivial = the saved value is compound and ground; distinct = hash of (value, order in which its parts were bound)')
ASSUMPTIONS = [
    'non-ground saved values are only checked at the moment of saving (their unbound variables may legitimately be bound later)',
    'frames of the history end in LIFO order; the independent enumerations (SIDE) start, advance and end at any point of it',
    'to_python results are compared with the documented mapping (atoms -> names, ints, lists, (name, args), unbound -> None)',
]
COMPONENTS = {'real': ['yldprolog.engine Variable/Functor get_value and to_python, unify, findall, assert_fact', 'compiler + generated clauses for the program part'],
              'stub': ['consumer holding the open unifications and saved values'],
              'oracle': ['substitution-stack model (ypsim.terms) rendered through the documented to_python mapping']}
REQUIRED_PROBES = ('term_built_and_kept', 'fault_recursion_inside_get_value', 'fault_recursion_inside_to_python', 'save_ground_compound', 'save_outer_older_than_inner', 'read_after_pop', 'program_collect_idiom', 'program_findall', 'program_assert',
                   'pop_close', 'pop_drop', 'pop_resume', 'pop_throw', 'clear_under_open_unifications', 'finished_generator_closed_or_dropped_later', 'saved_value_used_as_goal', 'chain_of_variable_linked_cells', 'stored_through_assert_fact', 'side_advanced_or_ended_while_younger_generators_suspended', 'program_bounded_projection_fault', 'program_nested_bounded_native')


def ground_term(rng, depth):
    if depth == 0 or rng.random() < 0.3:
        return rng.choice([('a', 'a'), ('a', 'b'), ('i', 1), ('i', 2), ('a', '[]'), ('i', 0), ('i', 0.0), ('a', '')])
    if rng.random() < 0.25:
        return TM.mklist([ground_term(rng, depth - 1) for _ in range(rng.randrange(0, 3))])
    return ('f', rng.choice('gh'), tuple(ground_term(rng, depth - 1) for _ in range(rng.randrange(1, 3))))


def no_floats(t):
    if t[0] == 'i' and isinstance(t[1], float):
        return ('i', int(t[1]))
    if t[0] == 'f':
        return ('f', t[1], tuple(no_floats(a) for a in t[2]))
    return t


def decompose(rng, t, counter, eqs, p_split=0.6):
    """returns a term equal to t after solving eqs; subterms are cut out into fresh
    variables with probability p_split"""
    if t[0] == 'f':
        args = []
        for a in t[2]:
            sub = decompose(rng, a, counter, eqs, p_split)
            if rng.random() < p_split:
                counter[0] += 1
                v = ('v', counter[0])
                if rng.random() < 0.25:         # through a chain
                    counter[0] += 1
                    w = ('v', counter[0])
                    eqs.append((v, w))
                    eqs.append((w, sub))
                else:
                    eqs.append((v, sub))
                args.append(v)
            else:
                args.append(sub)
        return ('f', t[1], tuple(args))
    return t


def gen(seed, tier):
    rng = random.Random(seed)
    nv = rng.randrange(2, 7)
    ops = []
    if rng.random() < 0.5:
        big = rng.random() < 0.3
        target = ground_term(rng, rng.choice((1, 2, 3)))
        if big:
            # a large ground value (size-dependent paths: caches for big terms)
            target = ('f', 'h', (TM.mklist([ground_term(rng, 1) for _ in range(rng.randrange(14, 26))]), target))
        counter = [0]
        eqs = []
        top = decompose(rng, target, counter, eqs, rng.choice((0.5, 0.8, 1.0)))
        eqs.insert(0, (('v', 0), top))            # X = T first ...
        rest = eqs[1:]
        if rng.random() < 0.7:
            rng.shuffle(rest)                        # ... its variables afterwards, in any order
        else:
            rest.reverse()
        nv = max(nv, counter[0] + 1)
        for (a, b) in [eqs[0]] + rest:
            ops.append(['PUSH', TM.J(a), TM.J(b)] if rng.random() < 0.8 else ['PUSH', TM.J(b), TM.J(a)])
            if rng.random() < 0.15:
                ops.append(['SAVE', ['v', 0]])
        ops.append(['SAVE', ['v', 0]])
        for _ in range(rng.randrange(0, 3)):
            ops.append(['SAVE', ['v', rng.randrange(nv)]])
        npop = rng.randrange(0, len(eqs) + 1)
        for _ in range(npop):
            ops.append(['POP', rng.choice(('close', 'drop', 'resume', 'throw'))])
        if npop and rng.random() < 0.6:
            # bind the variables just released again, to other values, and look at X again: an earlier answer
            # must not show through (outer binding older than the inner ones, inner ones re-bound on backtracking)
            for (a, b) in reversed(([eqs[0]] + rest)[-npop:]):
                if a != ('v', 0):
                    ops.append(['PUSH', TM.J(a), TM.J(ground_term(rng, 1))])
            ops.append(['SAVE', ['v', 0]])
    for _ in range(rng.randrange(0, 14 * (2 if tier == 'thorough' else 1))):
        k = rng.random()
        if k < 0.05:
            ops.append(['NEWVAR'])
        elif k < 0.09:
            ops.append(['FAULT', rng.choice(('get_value', 'to_python')), rng.choice(('list', 'nest'))])
        elif k < 0.14:
            # a compound term over the pool variables built now and read at later events (after bindings changed)
            if rng.random() < 0.25:
                ops.append(['MKTERM', TM.J(TM.build_big(rng.choice(('list', 'open', 'wide', 'nest')), TM.big_leaves(rng, nv, rng.choice((20, 26, 41, 66)), p_var=0.1)))])
            else:
                ops.append(['MKTERM', TM.J(TM.rnd_term(rng, nv, 2, p_leaf=0.2, p_var=0.7, lists=rng.random() < 0.4))])
        elif k < 0.15:
            ops.append(['CLEAR'])
        elif k < 0.17:
            # a unification that already ended by exhaustion is closed / dropped only now (a no-op for a generator)
            ops.append(['REAP', rng.randrange(4), rng.choice(('close', 'drop'))])
        elif k < 0.2:
            # a saved value is used as a goal (closure) by call/N; it must still denote what it denoted
            ops.append(['ASGOAL', rng.randrange(6), rng.randrange(1, 3)])
        elif k < 0.3:
            ops.append(['POP', rng.choice(('close', 'drop', 'resume', 'resume', 'throw'))])
        elif k < 0.55:
            t = ['v', rng.randrange(nv)] if rng.random() < 0.7 else TM.J(TM.rnd_term(rng, nv, 2, lists=False))
            ops.append(['SAVE', t])
        else:
            t1 = ('v', rng.randrange(nv))
            t2 = TM.rnd_term(rng, nv, 2, p_var=0.4) if rng.random() < 0.7 else ('a', rng.choice('ab'))
            ops.append(['PUSH', TM.J(t1), TM.J(t2)])
    if rng.random() < 0.12:
        # a long list built cell by cell: every tail is a variable of its own bound by a later unification
        ops.insert(rng.randrange(len(ops) + 1), ['CHAIN', rng.randrange(nv), rng.choice((20, 40, 101, 120, 150))])
        ops.append(['SAVE', ['v', rng.randrange(nv)]])
    prefill = rng.choice((0, 0, 33, 40))
    if rng.random() < 0.3:
        # values stored through the assert_fact API (into a predicate that already holds `prefill` facts) and read back at the end
        for _ in range(rng.randrange(1, 4)):
            ops.insert(rng.randrange(len(ops) + 1), ['ASSERTV', ['v', rng.randrange(nv)] if rng.random() < 0.6 else TM.J(TM.rnd_term(rng, nv, 2, p_var=0.6, lists=False))])
    if rng.random() < 0.35:
        # independent enumerations (over variables of their own, on this engine or another one) suspended at an answer
        # while the history goes on, and advanced / ended in any order relative to the frames of the history
        for _ in range(rng.randrange(1, 5)):
            pos = rng.randrange(len(ops) + 1)
            ops.insert(pos, ['SIDE', rng.random() < 0.3] if rng.random() < 0.5 else ['SIDESTEP', rng.randrange(4), rng.choice(('step', 'step', 'close', 'drop'))])
    program = None
    if rng.random() < 0.3:
        target = no_floats(ground_term(rng, rng.choice((1, 2, 3))))       # (the Prolog subset has no float literals)
        if target[0] != 'f':
            target = ('f', 'g', (target,))
        counter = [0]
        eqs = []
        top = decompose(rng, target, counter, eqs, rng.choice((0.5, 1.0)))
        eqs.insert(0, (('v', 0), top))
        rng.shuffle(eqs)
        names = {}
        body = ', '.join('%s = %s' % (progs.render(a, names), progs.render(b, names)) for a, b in eqs)
        head = progs.render(('v', 0), names)
        # a second clause so that the enumeration advances past the first answer
        program = {'source': 'p(%s) :- %s.\np(second).\npn(X,N) :- p(X), nbp(N).\nt(L) :- findall(X, p(X), L).\nst :- p(X), assertz(s(X)), never_defined(X).\nst.\n' % (head, body),
                   'target': TM.J(target), 'equations': len(eqs)}
    return {'nv': nv, 'ops': ops, 'program': program, 'prefill': prefill}


def show_op(op):
    if op[0] == 'PUSH':
        return 'PUSH %s = %s' % (TM.show(TM.T(op[1])), TM.show(TM.T(op[2])))
    if op[0] == 'SAVE':
        return 'SAVE %s' % TM.show(TM.T(op[1]))
    if op[0] == 'MKTERM':
        return 'MKTERM %s (built now, read at every later event)' % TM.show(TM.T(op[1]))
    if op[0] == 'CLEAR':
        return 'CLEAR yp.clear() (atoms, facts, rules; not the bindings of open unifications)'
    if op[0] == 'CHAIN':
        return 'CHAIN _V%d = list of %d cells, each tail a variable of its own bound by the next unification (one frame)' % (op[1], op[2])
    if op[0] == 'ASSERTV':
        return 'ASSERTV assert_fact(st(%s)) as it is now' % TM.show(TM.T(op[1]))
    if op[0] == 'REAP':
        return 'REAP %s a unification generator that ended earlier by exhaustion (#%d)' % (op[2], op[1])
    if op[0] == 'ASGOAL':
        return 'ASGOAL call/%d with saved value #%d as the goal (closure), abandoned after its first answer if any' % (op[2] + 1, op[1])
    if op[0] == 'SIDE':
        return 'SIDE start an independent enumeration sf(A,B) on %s and stop at its first answer' % ('another engine' if op[1] else 'this engine')
    if op[0] == 'SIDESTEP':
        return 'SIDESTEP %s independent enumeration #%d' % (op[2], op[1])
    if op[0] == 'FAULT':
        return 'FAULT recursion limit strikes inside %s of a deep %s (handled by the caller)' % (op[1], op[2])
    return ' '.join(str(x) for x in op)


def sample_view(plan):
    return {'pool_variables': plan['nv'], 'history': [show_op(op) for op in plan['ops']], 'program': plan['program']}


def _depth():
    import sys
    f = sys._getframe(1)
    n = 0
    while f is not None:
        n += 1
        f = f.f_back
    return n


def raw_has_variable(x, depth=0):
    """walks a value WITHOUT dereferencing: is there any Variable object inside?"""
    from yldprolog.engine import Variable, Functor
    if depth > TM.OBS_DEPTH_CAP:
        raise TM.TooDeep()
    if isinstance(x, Variable):
        return True
    if isinstance(x, Functor):
        return any(raw_has_variable(a, depth + 1) for a in x._args)
    return False


def pyj(x):
    """to_python results -> JSON-able canonical form"""
    if isinstance(x, tuple):
        return ['T', x[0], [pyj(a) for a in x[1]]]
    if isinstance(x, list):
        return ['L'] + [pyj(a) for a in x]
    return x


class ChainFrame:
    """one frame of the history made of many open unifications (ended together, newest first)"""

    def __init__(self, tasks):
        self.tasks = tasks
        self.done = False

    def close(self):
        for t in reversed(self.tasks):
            t.close()
        self.done = True


def execute(plan):
    from yldprolog.engine import YP, unify, to_python, get_value
    log = core.Log(keep=plan.get('_keep', False))
    yp = YP()
    pool = Pool(yp, max(1, plan['nv']))
    s = {}
    stack = []
    saved = []          # (value, to_python at save time (model), description)
    kept_terms = []     # (model term, engine term) built by MKTERM
    asserted = []       # model terms stored through assert_fact, in order
    for i_ in range(plan.get('prefill', 0)):
        yp.assert_fact(yp.atom('st'), [yp.functor('pre', [i_])])
    finished = []       # unification generators that ended by exhaustion and are still referenced by the consumer
    sides = []          # [task, (A, B), row index] independent enumerations of sf/2
    SF = [('one', 1), ('two', 2), ('three', 3)]
    side_engines = {}

    def side_engine(other):
        if other not in side_engines:
            e = YP() if other else yp
            for nm, i in SF:
                e.assert_fact(e.atom('sf'), [e.functor('k', [e.atom(nm)]), e.listpair(i, e.ATOM_NIL)])
            side_engines[other] = e
        return side_engines[other]

    def check_now(tag):
        for n_, (t_, (a_, b_), row, _other) in enumerate(sides):
            if t_.done:
                wa, wb = None, None
            else:
                wa, wb = ('k', [SF[row][0]]), [SF[row][1]]
            try:
                ga, gb = to_python(a_), to_python(b_)
            except Exception as e:
                log.violation('to_python-raises', {'at': tag, 'independent_enumeration': n_, 'exception': type(e).__name__})
                return False
            if pyj(ga) != pyj(wa) or pyj(gb) != pyj(wb):
                log.violation('answer-of-independent-enumeration-misses-binding', {'at': tag, 'enumeration': n_, 'answer_index': row, 'engine': [pyj(ga), pyj(gb)], 'expected': [pyj(wa), pyj(wb)]})
                return False
        # terms built earlier over the pool variables must reflect the bindings as they are now
        for mt_, et_ in kept_terms:
            ids_ = pool.ids()
            got_ = TM.canon([TM.observe(et_, ids_)] + [TM.observe(v, ids_) for v in pool.vars])
            want_ = TM.canon([TM.resolve(mt_, s)] + [TM.resolve(('v', i), s) for i in range(len(pool))])
            if got_ != want_:
                log.violation('term-built-earlier-misses-binding', {'at': tag, 'term': TM.show(mt_), 'engine': TM.show(got_[0]), 'model': TM.show(want_[0])})
                return False
            # ... also through the public get_value of the term object itself (which returns a resolved copy)
            gv_ = TM.canon([TM.observe(get_value(et_), ids_)] + [TM.observe(v, ids_) for v in pool.vars])
            if gv_ != want_:
                log.violation('term-built-earlier-misses-binding', {'at': tag, 'term': TM.show(mt_), 'get_value': TM.show(gv_[0]), 'model': TM.show(want_[0])})
                return False
            r_ = TM.resolve(mt_, s)
            if TM.py_defined(r_):
                try:
                    py_ = to_python(et_)
                except Exception as e:
                    log.violation('to_python-raises', {'at': tag, 'term': TM.show(mt_), 'exception': type(e).__name__})
                    return False
                if pyj(py_) != pyj(TM.to_py(r_)):
                    log.violation('term-built-earlier-misses-binding', {'at': tag, 'term': TM.show(mt_), 'to_python': pyj(py_), 'model': pyj(TM.to_py(r_))})
                    return False
        # get_value at every depth (through the observer, which dereferences node by node) vs. the model;
        # this also covers values for which to_python is not defined (partial lists)
        got_all, want_all = pool.observe_all(), pool.model_all(s)
        if got_all != want_all:
            i = next(k for k, (x, y) in enumerate(zip(got_all, want_all)) if x != y)
            log.violation('get_value-misses-binding', {'at': tag, 'variable': i, 'engine': TM.show(got_all[i]), 'model': TM.show(want_all[i])})
            return False
        for i, v in enumerate(pool.vars):
            core.progress()
            mt = TM.resolve(('v', i), s)
            if not TM.py_defined(mt):
                log.count('skipped_partial_list')       # to_python is documented for proper lists only
                continue
            want = TM.to_py(mt)
            try:
                got = to_python(v)
            except Exception as e:
                log.violation('to_python-raises', {'at': tag, 'variable': i, 'exception': type(e).__name__, 'model': pyj(want)})
                return False
            if pyj(got) != pyj(want):
                log.violation('to_python-misses-binding', {'at': tag, 'variable': i, 'engine': pyj(got), 'model': pyj(want)})
                return False
        for n, (val, py, desc) in enumerate(saved):
            core.progress()
            if raw_has_variable(val):
                log.violation('saved-value-contains-variable', {'at': tag, 'saved': desc, 'denoted_at_save': pyj(py)})
                return False
            try:
                now = to_python(val)
            except Exception as e:
                log.violation('to_python-raises', {'at': tag, 'saved': desc, 'exception': type(e).__name__})
                return False
            if pyj(now) != pyj(py):
                log.violation('saved-value-changed', {'at': tag, 'saved': desc, 'denoted_at_save': pyj(py), 'denotes_now': pyj(to_python(val))})
                return False
        return True

    try:
        ok_all = True
        for op in plan['ops']:
            kind = op[0]
            if kind == 'NEWVAR':
                pool.newvar()
                log.ev('newvar')
            elif kind == 'PUSH':
                if len(stack) >= 90:
                    log.ev('noop')
                    continue
                t1, t2 = pool.norm(TM.T(op[1])), pool.norm(TM.T(op[2]))
                if TM.munify_any_order_cyclic(t1, t2, s):
                    log.ev('skip-cyclic')
                    continue
                s2 = TM.munify(t1, t2, s)
                task = GenTask(unify(pool.build(t1), pool.build(t2)))
                ok = task.step()
                log.ev('push', ok)
                if ok != (s2 is not None):
                    log.count('precondition_lost')
                    break
                if ok:
                    stack.append((task, s))
                    s = s2
            elif kind == 'POP':
                if not stack:
                    log.ev('noop')
                    continue
                task, s_before = stack.pop()
                if isinstance(task, ChainFrame):
                    task.close()
                else:
                    end_task(task, op[1])
                if op[1] == 'resume' and len(finished) < 4 and not isinstance(task, ChainFrame):
                    finished.append(task)
                task = None
                log.count('pop_' + op[1])
                s = s_before
                log.ev('pop', op[1])
                if pool.observe_all() != pool.model_all(s):
                    log.count('precondition_lost')
                    break
                if saved:
                    log.count('read_after_pop')
            elif kind == 'CLEAR':
                yp.clear()
                del asserted[:]
                for i_ in range(plan.get('prefill', 0)):
                    yp.assert_fact(yp.atom('st'), [yp.functor('pre', [i_])])
                side_engines.pop(False, None)
                for x_ in sides:
                    if not x_[0].done and x_[3] is False:
                        x_[0].close()
                log.count('clear_under_open_unifications' if stack else 'clear')
                log.ev('clear')
            elif kind == 'CHAIN':
                vi = op[1] % len(pool)
                if len(stack) >= 90 or TM.walk(('v', vi), s) != ('v', vi):
                    log.ev('noop')
                    continue
                n_ = op[2]
                tasks_ = []
                cur_ = pool.vars[vi]
                ok_ = True
                for j_ in range(n_):
                    nxt_ = yp.variable() if j_ < n_ - 1 else yp.ATOM_NIL
                    t_ = GenTask(unify(cur_, yp.listpair(yp.atom('e'), nxt_)))
                    if not t_.step():
                        ok_ = False
                        break
                    tasks_.append(t_)
                    cur_ = nxt_
                if not ok_:
                    log.count('precondition_lost')
                    break
                s2 = dict(s)
                s2[vi] = TM.mklist([('a', 'e')] * n_)
                stack.append((ChainFrame(tasks_), s))
                s = s2
                log.count('chain_of_variable_linked_cells')
                log.ev('chain', vi, n_)
            elif kind == 'ASSERTV':
                t = pool.norm(TM.T(op[1]))
                mt = TM.resolve(t, s)
                yp.assert_fact(yp.atom('st'), [pool.build(t)])
                asserted.append(mt)
                log.count('stored_through_assert_fact')
                log.ev('assertv', TM.show(mt))
            elif kind == 'REAP':
                if not finished:
                    log.ev('noop')
                    continue
                t_ = finished.pop(op[1] % len(finished))
                if op[2] == 'close':
                    t_.gen.close()
                t_.gen = None
                t_ = None
                log.count('finished_generator_closed_or_dropped_later')
                log.ev('reap', op[2])
            elif kind == 'ASGOAL':
                cands_ = [x for x in saved if hasattr(x[0], '_args')]
                if not cands_:
                    log.ev('noop')
                    continue
                val_ = cands_[op[1] % len(cands_)][0]
                extra_ = [yp.atom('z'), yp.variable()][:op[2]]
                outcome_ = 'none'
                try:
                    g_ = yp.query('call', [val_] + extra_)
                    for _ in g_:
                        outcome_ = 'answer'
                        break
                    if hasattr(g_, 'close'):
                        g_.close()
                except Exception as e:
                    outcome_ = type(e).__name__
                g_ = None
                log.count('saved_value_used_as_goal')
                log.ev('asgoal', op[2], outcome_)
            elif kind == 'MKTERM':
                t = pool.norm(TM.T(op[1]))
                if len(kept_terms) < 4 and t[0] == 'f':
                    kept_terms.append((t, pool.build(t)))
                    log.count('term_built_and_kept')
                    log.ev('mkterm', TM.show(t))
            elif kind == 'SIDE':
                if len(sides) >= 4:
                    log.ev('noop')
                    continue
                e = side_engine(bool(op[1]))
                a_, b_ = e.variable(), e.variable()
                t_ = GenTask(e.query('sf', [a_, b_]))
                t_.step()
                sides.append([t_, (a_, b_), 0, bool(op[1])])
                log.count('side_started')
                log.ev('side', bool(op[1]))
            elif kind == 'SIDESTEP':
                live_ = [x for x in sides if not x[0].done]
                if not live_:
                    log.ev('noop')
                    continue
                x = live_[op[1] % len(live_)]
                younger = any(y is not x and not y[0].done for y in sides[sides.index(x) + 1:]) or bool(stack)
                if op[2] == 'step':
                    if x[0].step():
                        x[2] += 1
                elif op[2] == 'close':
                    x[0].close()
                else:
                    x[0].drop()
                if younger:
                    log.count('side_advanced_or_ended_while_younger_generators_suspended')
                log.ev('sidestep', op[2], x[0].done)
            elif kind == 'FAULT':
                # the interpreter raises RecursionError in the middle of a dereference; the caller handles it.
                # Nothing about later dereferences may change because of that.
                import sys
                deep = yp.atom('end')
                for _ in range(600):
                    deep = yp.listpair(yp.atom('e'), deep) if op[2] == 'list' else yp.functor('w', [deep])
                dv = yp.variable()
                held_fault = GenTask(unify(dv, deep))
                held_fault.step()
                old = sys.getrecursionlimit()
                raised = False
                try:
                    sys.setrecursionlimit(_depth() + 70)
                    try:
                        get_value(dv) if op[1] == 'get_value' else to_python(dv)
                    except RecursionError:
                        raised = True
                finally:
                    sys.setrecursionlimit(old)
                held_fault.close()
                log.count('fault_recursion_inside_' + op[1])
                log.ev('fault', op[1], op[2], raised)
            elif kind == 'SAVE':
                t = pool.norm(TM.T(op[1]))
                log.count('cases')
                mt = TM.resolve(t, s)
                val = get_value(pool.build(t))
                desc = '%s (= %s)' % (TM.show(t), TM.show(mt))
                log.ev('save', TM.show(mt))
                if not TM.py_defined(mt):
                    log.count('skipped_partial_list')
                    continue
                if pyj(to_python(val)) != pyj(TM.to_py(mt)):
                    log.violation('get_value-misses-binding', {'saved': desc, 'engine': pyj(to_python(val)), 'model': pyj(TM.to_py(mt))})
                    break
                if TM.is_ground(mt):
                    if mt[0] == 'f':
                        log.count('save_ground_compound')
                        # in which order were its parts bound?  outer binding older than an inner one:
                        stored = TM.walk(t, s)
                        older = stored[0] == 'f' and not TM.is_ground(stored) if t[0] == 'v' else any(TM.walk(('v', v), s) != ('v', v) for v in TM.variables_of(t))
                        if older:
                            log.count('save_outer_older_than_inner')
                        log.key((mt, older, len(stack)))
                    saved.append((val, TM.to_py(mt), desc))
            if not check_now(show_op(op)):
                ok_all = False
                break
        # unwind everything; saved ground values must survive
        while ok_all and stack:
            task, s = stack.pop()
            task.close()
            if not check_now('final unwinding'):
                ok_all = False
        if ok_all and asserted:
            # what was stored through assert_fact denotes what the argument denoted at that moment (variables renamed apart)
            x_ = yp.variable()
            got_ = []
            for _ in yp.query('st', [x_]):
                got_.append(TM.canon([TM.observe(x_, {})])[0])
            got_ = got_[plan.get('prefill', 0):]
            want_ = [TM.canon([m_])[0] for m_ in asserted]
            log.ev('stored', len(got_))
            if got_ != want_:
                i_ = next((k for k, (a_, b_) in enumerate(zip(got_ + [None], want_ + [None])) if a_ != b_), 0)
                log.violation('asserted-term-not-dereferenced', {'stored_no': i_, 'facts_before_it': plan.get('prefill', 0) + i_, 'stored': None if i_ >= len(got_) else TM.show(got_[i_]),
                                                                 'value_when_asserted': None if i_ >= len(want_) else TM.show(want_[i_])})
                ok_all = False
        if ok_all and plan.get('program'):
            run_program(plan['program'], log)
    except TM.TooDeep:
        log.violation('cyclic-term-built', {})
    except RecursionError:
        log.violation('recursion-error', {})
    while stack:
        stack.pop()[0].close()
    for x in sides:
        if not x[0].done:
            x[0].close()
    return log.result()


def run_program(prog, log):
    from yldprolog.engine import YP, to_python
    from yldprolog.compiler import compile_prolog_from_string
    try:
        with contextlib.redirect_stderr(io.StringIO()):
            code = compile_prolog_from_string(prog['source'])
        yp = YP()
        yp.load_script_from_string(code, fn='<sim:c15>')
    except Exception:
        log.count('program_discarded')
        return
    target = TM.to_py(TM.T(prog['target']))
    want = [target, 'second']
    # 1. the documented collect idiom
    log.count('cases'); log.count('program_collect_idiom')
    x = yp.variable()
    at_answer = []
    q = yp.query('p', [x])
    collected = []
    try:
        for _ in q:
            collected.append(x.get_value())
            at_answer.append(to_python(x))
    except Exception as e:
        log.violation('program-answer-misses-binding', {'program': prog['source'], 'answers_so_far': [pyj(a) for a in at_answer],
                                                        'exception_at_next_answer': type(e).__name__, 'expected': [pyj(w) for w in want]})
        return
    log.ev('collect', len(collected))
    log.key(('program', prog['source'].split('\n')[0]))
    if [pyj(a) for a in at_answer] != [pyj(w) for w in want]:
        # the body is nothing but unifications that build one ground term, in a seeded order: whatever that
        # order, the value at the answer must show every binding at every depth
        log.violation('program-answer-misses-binding', {'program': prog['source'], 'at_answer': [pyj(a) for a in at_answer], 'expected': [pyj(w) for w in want]})
        return
    for val in collected:
        if raw_has_variable(val):
            log.violation('collected-answer-contains-variable', {'program': prog['source'], 'idiom': '[v.get_value() for _ in q]'})
            return
    # a collected answer used as a closure by call/N (whatever that call does) still denotes the same term afterwards
    for val in collected:
        if hasattr(val, '_args'):
            try:
                for _ in yp.query('call', [val, yp.atom('z'), yp.variable()]):
                    break
            except Exception:
                pass
    if [pyj(to_python(v)) for v in collected] != [pyj(w) for w in want]:
        log.violation('collected-answer-changed', {'program': prog['source'], 'after_query': [pyj(to_python(v)) for v in collected], 'at_answer': [pyj(w) for w in want]})
        return
    # 1b. the same through evaluate_bounded with the documented projection; the recursion limit strikes inside the
    # projection of one answer (the search itself is shallow).  Whatever comes back must be answers: variable-free
    # and equal to what the query gave at that position
    import sys
    for k in range(len(want) + 1):
        log.count('cases')
        x = yp.variable()
        seen = []

        def burn(n):
            return burn(n - 1) + 1 if n else 0

        def proj(_):
            seen.append(1)
            if len(seen) - 1 == k:
                burn(260)
            return x.get_value()
        base = _depth()
        try:
            res = yp.evaluate_bounded(yp.query('p', [x]), proj, recursion_limit=base + 200)
        except Exception as e:
            log.ev('bounded-raised', type(e).__name__)
            log.count('program_bounded_raised')
            continue
        if k < len(want):
            log.count('program_bounded_projection_fault')
        log.ev('bounded', k, len(res))
        for i, val in enumerate(res):
            if raw_has_variable(val):
                log.violation('collected-answer-contains-variable', {'program': prog['source'], 'idiom': 'evaluate_bounded(query, lambda _: v.get_value()) with the recursion limit striking inside the projection of answer %d' % k, 'position': i})
                return
        got = [pyj(to_python(v)) for v in res]
        # positions are those of the answers that were projected: the answers before k, then (if the engine goes on) the later ones
        allowed = [[pyj(w) for w in want[:k]], [pyj(w) for w in want[:k] + want[k + 1:]]]
        if got not in allowed:
            log.violation('collected-answer-changed', {'program': prog['source'], 'idiom': 'evaluate_bounded', 'fault_at_answer': k, 'returned': got, 'answers': [pyj(w) for w in want]})
            return
    # 1c. the query is driven by evaluate_bounded and one of its goals is a registered Python predicate that runs a
    # bounded query of its own on the same engine (re-entrant use): the outer answers are still the outer answers
    log.count('cases'); log.count('program_nested_bounded_native')
    from yldprolog.engine import unify as _unify

    def nbp(arg):
        y_ = yp.variable()
        inner = yp.evaluate_bounded(yp.query('p', [y_]), lambda _: to_python(y_), recursion_limit=sys.getrecursionlimit())
        for _ in _unify(arg, len(inner)):
            yield False
    yp.register_function('nbp', nbp)
    x = yp.variable()
    n_ = yp.variable()
    try:
        res = yp.evaluate_bounded(yp.query('pn', [x, n_]), lambda _: (x.get_value(), to_python(n_)), recursion_limit=sys.getrecursionlimit())
    except Exception as e:
        log.violation('program-answer-misses-binding', {'program': prog['source'], 'idiom': 'evaluate_bounded over pn(X,N) :- p(X), nbp(N).', 'exception': type(e).__name__})
        return
    log.ev('nested-native', len(res))
    for val, cnt in res:
        if raw_has_variable(val):
            log.violation('collected-answer-contains-variable', {'program': prog['source'], 'idiom': 'evaluate_bounded over pn(X,N) :- p(X), nbp(N). where nbp/1 runs evaluate_bounded itself'})
            return
    if [[pyj(to_python(v)), c] for v, c in res] != [[pyj(w), len(want)] for w in want]:
        log.violation('collected-answer-changed', {'program': prog['source'], 'idiom': 'evaluate_bounded over pn(X,N) :- p(X), nbp(N). where nbp/1 runs evaluate_bounded itself',
                                                   'returned': [[pyj(to_python(v)), c] for v, c in res], 'expected': [[pyj(w), len(want)] for w in want]})
        return
    # 2. findall
    log.count('cases'); log.count('program_findall')
    lst = yp.variable()
    res = [lst.get_value() for _ in yp.query('t', [lst])]
    if len(res) == 1:
        if raw_has_variable(res[0]) or pyj(to_python(res[0])) != pyj(want):
            log.violation('findall-result-not-dereferenced', {'program': prog['source'], 'result_after_query': pyj(to_python(res[0])), 'expected': pyj(want)})
            return
    else:
        log.count('program_answers_unexpected')
    # 3. asserted terms
    log.count('cases'); log.count('program_assert')
    n = sum(1 for _ in yp.query('st', []))
    y = yp.variable()
    got = [to_python(y) for _ in yp.query('s', [y])]
    if n == 1 and [pyj(g) for g in got] != [pyj(w) for w in want]:
        log.violation('asserted-term-not-dereferenced', {'program': prog['source'], 'stored': [pyj(g) for g in got], 'expected': [pyj(w) for w in want]})


def simplify(plan):
    if plan.get('program'):
        c = dict(plan)
        c['program'] = None
        yield c
    if plan['ops'] and plan.get('program'):
        c = dict(plan)
        c['ops'] = []
        yield c
    if plan['nv'] > 1:
        c = dict(plan)
        c['nv'] = plan['nv'] - 1
        yield c
    yield from simplify_ops_terms(plan, {'PUSH': (1, 2), 'SAVE': (1,), 'MKTERM': (1,)})


def witness(plan, viol):
    w = viol['class'] + ': ' + ' ; '.join(show_op(op) for op in plan['ops'])
    if plan.get('program'):
        w += ' | program ' + plan['program']['source'].split('\n')[0]
    return w
