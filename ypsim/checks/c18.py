"""C18 - compilation is a deterministic function of the source text.  A pool of
fresh interpreters, each with its own seeded PYTHONHASHSEED, fake wall clock, pid and
seeded history of other compilations; outputs for equal (text, options) must be
byte-identical everywhere (DESIGN.md section 4, C18)."""
import os, sys, json, random, subprocess
from .. import core, progs

PROP = 'C18'
LEVEL = 'exploration'
CASES_ARE_COUNTED = True
TIERS = {'quick': {'runs': 300, 'budget_s': 55}, 'thorough': {'runs': 40000, 'budget_s': 600}}
WALL_CAP_S = 120
NO_RERUN = True
DDMIN_FIELDS = ('programs',)
RULE = ('one run = a seeded corpus of 4-10 programs compiled by 2-4 fresh interpreters, each started with its own seeded '
        'PYTHONHASHSEED, fake clock (epoch, rate), fake pid and private working directory (compile_prolog_from_file is used as well as compile_prolog_from_string; options objects are plain classes, the library default or subclasses of CompilerContext), each following its own seeded history (permutation, subsample, '
        'repeats, pairs of compilations running at the same time in two threads under a seeded baton scheduler with the package\'s source lines as pre-emption points, interleaved debug-option variants incl. a debug stream that fails with an I/O error at its n-th write; the corpus also holds look-alike '
        'twins, variants with syntax errors and variants that make the compiler raise in the middle of a clause); a case = one (program text, options) target; non-trivial = the target '
        'was compiled at least twice under different hash seeds or at different history positions and its text has a clause '
        'with >= 2 distinct variables, an anonymous variable or an if-then-else/negation; distinct = hash of (text, options)')
ASSUMPTIONS = [
    'real CPython interpreters with real string-hash seeds (no set order is faked in-process)',
    'an exception type counts as the outcome; messages are not compared',
    'the wall clock is a seeded fake in the workers (the shipped compiler reads no clock; this is a guard for changes that do)',
]
COMPONENTS = {'real': ['yldprolog.compiler pipeline incl. ANTLR runtime, one fresh CPython process per (hash seed, clock, history)', 'real threads for the concurrent pairs'],
              'stub': ['thread scheduler (baton passing: one runnable thread, seeded switches at line events of the package; the ANTLR runtime is not pre-empted)', 'wall clock in the workers (time/datetime patched to a seeded fake)', 'debug output stream (in-memory)'],
              'oracle': ['byte equality of outcome and return value between interpreters and history positions']}
REQUIRED_PROBES = ('pairs_compiled_concurrently', 'thread_preemptions_in_compiler_py', 'outcome_EXC:OSError', 'outcome_EXC:CompilerError', 'interpreters', 'targets_compared_across_hashseeds', 'targets_compared_across_positions')

OPTIONS = [['', False, False], ['src/a.pl', False, False], ['', False, True], ['b.pl', True, True], ['', True, False], ['lib/b.pl', False, False],
           ['', False, True, 3], ['', True, True, 40],      # 4th element: the debug stream raises OSError at its n-th write (I/O fault)
           # 5th: options object = 'plain' class / the library's 'default' / a 'subclass' of CompilerContext; 6th: from 'string' or 'file'
           ['', False, False, None, 'default', 'string'], ['', False, False, None, 'default', 'file'],
           ['x', False, False, None, 'subclass', 'string'], ['x', False, False, None, 'subclass', 'file'], ['', False, False, None, 'plain', 'file']]


def gen(seed, tier):
    rng = random.Random(seed)
    programs = [progs.gen_compile_program(rng) for _ in range(rng.randrange(4, 9))]
    bigs = []
    if rng.random() < 0.25:
        # two programs with many predicates, of different sizes
        for _ in range(2):
            bigs.append(len(programs))
            programs.append(progs.gen_compile_program(rng, big=True))
        if rng.random() < 0.6:
            # ... one of them also has a predicate with many clauses (12-40 facts and rules in one block)
            n_tall = rng.randrange(12, 41)
            tall = ['tall(a%d, X) :- tall(X, b%d).' % (i, i) if rng.random() < 0.3 else 'tall(a%d, %s).' % (i, rng.choice(['b', 'X', '[]', '"s"', '1'])) for i in range(n_tall)]
            programs[bigs[0]] = programs[bigs[0]].rstrip('\n') + '\n' + '\n'.join(tall) + '\n'
    # look-alike twins and failing variants of corpus programs: what one compilation leaves behind in the
    # process (memo tables, half-updated scopes) must not show in the next
    for text in list(programs):
        r = rng.random()
        extra = progs.unquoted_twin(text) if r < 0.4 else (progs.failing_variant(rng, text) if r < 0.7 else (progs.syntax_error_variant(rng, text) if r < 0.9 else None))
        if extra and extra not in programs:
            programs.append(extra)
    workers = []
    for _ in range(rng.randrange(2, 5)):
        hist = []
        for _ in range(rng.randrange(3, 16)):
            hist.append([rng.randrange(len(programs)), 0 if rng.random() < 0.65 else rng.randrange(len(OPTIONS))])
        # every worker also compiles program 0 and 1 with plain options so that overlaps are guaranteed
        for k in (0, 1):
            hist.insert(rng.randrange(len(hist) + 1), [k, 0])
        # ... and program 0 under both file-name options (same text, other options, same process)
        for o in (1, 5):
            hist.insert(rng.randrange(len(hist) + 1), [0, o])
        # ... and program 0 through the library's own options objects, from a string and from a file
        for o in (10, 11):
            hist.insert(rng.randrange(len(hist) + 1), [0, o])
        if bigs:
            # ... and the big programs: one, the other, the first again (what a big compilation leaves behind in the process)
            at = rng.randrange(len(hist) + 1)
            first = rng.randrange(2)
            hist[at:at] = [[bigs[first], 0], [bigs[1 - first], 0], [bigs[first], 0]]
        wides = [i for i, t in enumerate(programs) if any(l.count(',') >= 8 and l.split('(')[0] in ('wide', 'p', 'foo') for l in t.split('\n'))]
        if wides and rng.random() < 0.5:
            # the first thing this interpreter does: two programs with a 9-12-argument predicate compiled at the same time
            hist.insert(0, ['par', [rng.choice(wides), 0], [rng.choice(wides), 0], rng.randrange(1 << 30)])
        if rng.random() < 0.6:
            # pairs of compilations that run at the same time in two threads of the interpreter (seeded pre-emption)
            for _ in range(rng.randrange(1, 4)):
                a, b = rng.randrange(len(programs)), rng.randrange(len(programs))
                hist.insert(rng.randrange(len(hist) + 1), ['par', [a, 0], [b, rng.choice((0, 0, 1, 8))], rng.randrange(1 << 30)])
        workers.append({'hashseed': rng.randrange(0, 4294967295), 'clock': [rng.randrange(10**9, 2 * 10**9), rng.choice([0.001, 1, 3600, 86400 * 40])],
                        'history': hist, 'pid': rng.randrange(2, 4194304)})
    return {'programs': programs, 'workers': workers}


def sample_view(plan):
    return {'programs': plan['programs'][:2], 'n_programs': len(plan['programs']), 'workers': plan['workers']}


def run_worker(w, programs):
    env = {k: v for k, v in os.environ.items() if k not in ('PYTHONHASHSEED',)}
    env['PYTHONHASHSEED'] = str(w['hashseed'])
    env['PYTHONDONTWRITEBYTECODE'] = '1'
    hist = []
    for e in (w['history'] if programs else []):
        if e[0] == 'par':
            hist.append(['par', [e[1][0] % len(programs), e[1][1]], [e[2][0] % len(programs), e[2][1]], e[3]])
        else:
            hist.append([e[0] % len(programs), e[1]])
    job = {'src': os.path.join(core.REPO, 'src'), 'clock': w['clock'], 'pid': w.get('pid', 4242), 'programs': programs, 'history': hist, 'options': OPTIONS}
    r = subprocess.run([sys.executable, os.path.join(os.path.dirname(os.path.dirname(os.path.abspath(__file__))), 'c18_worker.py')],
                       input=json.dumps(job), env=env, capture_output=True, text=True, timeout=100)
    if r.returncode != 0:
        raise core.HarnessError('c18 worker failed: ' + r.stderr[-2000:])
    return json.loads(r.stdout)


def interesting(text):
    import re
    for clause in text.split('.\n'):
        if len(set(re.findall(r'\b[A-Z][A-Za-z0-9_]*\b', clause))) >= 2 or '_' in clause or '->' in clause or '\\+' in clause:
            return True
    return False


def execute(plan):
    log = core.Log(keep=plan.get('_keep', False))
    programs = plan['programs']
    seen = {}        # (program index, options index) -> (outcome, text, dbg, err, worker#, position, hashseed)
    compared = set()
    for wi, w in enumerate(plan['workers']):
        if not programs:
            break
        log.count('interpreters')
        res = run_worker(w, programs)
        out = res['out']
        st = res.get('stats', {})
        if st.get('par_pairs'):
            log.count('pairs_compiled_concurrently', st['par_pairs'])
            log.count('thread_preemptions', st['preemptions'])
            log.count('thread_preemptions_in_compiler_py', st['preemptions_in_compiler_py'])
        log.ev('worker', wi, w['hashseed'], len(out), st.get('preemptions', 0))
        for pos, rec in enumerate(out):
            pi, oi, outcome, text, dbg, err = rec[:6]
            log.count('compilations')
            if len(rec) > 6:
                log.count('compiled_while_another_thread_compiles')
            if outcome != 'ok':
                log.count('outcome_' + outcome)
            key = (pi, oi)
            cur = (outcome, text, dbg, err)
            if key not in seen:
                seen[key] = cur + (wi, pos, w['hashseed'])
                log.count('cases')
                continue
            first = seen[key]
            if first[4] != wi:
                log.count('targets_compared_across_hashseeds')
            else:
                log.count('targets_compared_across_positions')
            if key not in compared and interesting(programs[pi]):
                compared.add(key)
                log.key((programs[pi], OPTIONS[oi]))
            # Only the outcome and the *returned* text are compared.  The debug stream written to
            # outf with debug_parser on prints parse-tree objects with their memory addresses by
            # design; it is not part of what compile_* returns, and the statement is about that.
            if first[:2] != cur[:2]:
                idx = 0 if first[0] != cur[0] else 1
                la, lb = str(first[idx]).splitlines(), str(cur[idx]).splitlines()
                diff = next(((x, y) for x, y in zip(la + [''], lb + ['']) if x != y), ('', ''))
                log.violation('output-differs', {'what': ['outcome', 'return value'][idx], 'program': programs[pi], 'options': OPTIONS[oi],
                                                 'first': {'worker': first[4], 'position': first[5], 'hashseed': first[6]},
                                                 'second': {'worker': wi, 'position': pos, 'hashseed': w['hashseed']}},
                              info={'first_differing_line': [diff[0], diff[1]]})
                return log.result()
    return log.result()


def simplify(plan):
    ws = plan['workers']
    if len(ws) > 2:
        for k in range(len(ws)):
            c = dict(plan)
            c['workers'] = ws[:k] + ws[k + 1:]
            yield c
    for k, w in enumerate(ws):
        h = w['history']
        for cut in (len(h) // 2, len(h) - 1):
            if 0 < cut < len(h):
                for part in (h[:cut], h[cut:]):
                    c = dict(plan)
                    c['workers'] = ws[:k] + [dict(w, history=part)] + ws[k + 1:]
                    yield c
    for pi, text in enumerate(plan['programs']):
        cl = [x for x in text.split('\n') if x]
        if len(cl) > 1:
            for k in range(len(cl)):
                c = dict(plan)
                c['programs'] = plan['programs'][:pi] + ['\n'.join(cl[:k] + cl[k + 1:]) + '\n'] + plan['programs'][pi + 1:]
                yield c


def witness(plan, viol):
    return 'output-differs: %s of %r' % (viol['detail']['what'], viol['detail']['program'])
