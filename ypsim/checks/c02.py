"""C02 - unification computes a most general unifier, or fails, under any stack of
already active bindings.  Binding-stack machine vs. an independent Robinson unifier
with an explicit substitution stack (DESIGN.md section 4, C02)."""
import random
from .. import core, terms as TM
from ..machine import GenTask, Pool, end_task, simplify_ops_terms

PROP = 'C02'
LEVEL = 'exploration'
CASES_ARE_COUNTED = True      # evidence 'evaluations' = executed unifications (counter 'cases')
TIERS = {'quick': {'runs': 16000, 'budget_s': 45}, 'thorough': {'runs': 1500000, 'budget_s': 600}}
RULE = ('one run = one seeded history of NEWVAR / PUSH(t1,t2[,swap-trial][,atoms made by another engine]) / POP(close|drop|resume) / CREATE (generator '
        'made now) + START (started later, under at least the bindings it was made under) on one engine, 12% of the runs in chain mode '
        '(alias chains of 9-14 variables whose far end is bound, looked up, unbound and re-bound); '
        'every PUSH is compared with the model unifier (outcome, equality of both sides, canonical form of all pool '
        'variables = most-general + aliasing, symmetric trial, at-most-once on resume). A case = one executed '
        'unification; non-trivial = at least one side compound or executed under >=1 active binding; distinct = '
        'hash of (both terms resolved under the active substitution up to renaming, outcome)')
ASSUMPTIONS = [
    'CPython 3.12 generator and refcount semantics',
    'the observer reads compound terms through Functor._name/_args (no public accessor exists)',
    'pairs whose unifier needs a cyclic term under either argument order/direction are unspecified and skipped (counted)',
    'unifications end in LIFO order (the engine\'s own usage discipline)',
]
COMPONENTS = {'real': ['yldprolog.engine unify/Variable/Atom/Functor/unify_arrays', 'CPython generators, refcount finalisation'],
              'stub': ['consumer (seeded scheduler holding the generators)'],
              'oracle': ['Robinson unifier over tuple terms with substitution stack (ypsim.terms)']}
REQUIRED_PROBES = ('clear_under_open_unifications', 'push_of_kept_term', 'push_of_big_terms', 'push_under_long_chain', 'started_under_more_bindings_than_created', 'atoms_of_another_engine', 'push_ok', 'push_fail', 'push_under_bindings', 'pop_close', 'pop_drop', 'pop_resume', 'pop_throw', 'fault_recursion_inside_unify', 'fault_boundvar', 'swap_trial')


def gen(seed, tier):
    rng = random.Random(seed)
    nv = rng.randrange(1, 7)
    depth = rng.choice((1, 2, 2, 3, 3))
    p_pop = rng.choice((0.15, 0.3, 0.45))
    lists = rng.random() < 0.6
    ops = []
    max_depth = 6
    if rng.random() < 0.12:
        # chain mode: a long variable-to-variable alias chain, its far end bound, looked up, unbound and bound again
        nv = rng.randrange(10, 15)
        max_depth = 16
        order = list(range(nv))
        rng.shuffle(order)
        order = order[:rng.randrange(9, nv + 1)]
        for a, b in zip(order, order[1:]):
            ops.append(['PUSH', ['v', a], ['v', b], False] if rng.random() < 0.7 else ['PUSH', ['v', b], ['v', a], False])
        for val in rng.sample(['a', 'b', 'ab'], 2):
            ops.append(['PUSH', ['v', order[-1]], ['a', val], rng.random() < 0.3])
            ops.append(['POP', rng.choice(('close', 'drop', 'resume', 'throw'))])
        ops.append(['PUSH', ['v', order[0]], ['a', 'b'], True])
    big = rng.random() < 0.1
    if big:
        nv = max(nv, 3)
    for _ in range(rng.randrange(1, 26 * (2 if tier == 'thorough' else 1))):
        k = rng.random()
        if big and k < 0.3:
            # big terms (long lists, wide and deep structures): size-dependent paths of the unifier
            t1, t2 = TM.big_pair(rng, nv + 1)
            if rng.random() < 0.5:
                t1, t2 = t2, t1
            ops.append(['PUSH', TM.J(t1), TM.J(t2), rng.random() < 0.3, rng.random() < 0.1])
            continue
        if k < 0.03:
            # a term built once and kept by the consumer; later unifications use the same object again
            ops.append(['KEEP', TM.J(TM.big_pair(rng, nv + 2)[0] if big and rng.random() < 0.6 else TM.rnd_term(rng, nv + 2, depth, p_leaf=0.15, lists=lists))])
            continue
        if k < 0.09:
            t2 = TM.rnd_term(rng, nv + 2, depth, lists=lists)
            ops.append(['PUSHK', rng.randrange(4), TM.J(t2), rng.random() < 0.3, rng.choice(('near', 'near', 'var', 'given'))])
            continue
        if k < 0.105:
            # clear() on the engine (its atoms, facts and rules go; the consumer's open unifications are none of its business)
            ops.append(['CLEAR'])
            continue
        if k < 0.12:
            ops.append(['NEWVAR'])
        elif k < 0.16:
            t1 = TM.rnd_term(rng, nv + 2, depth, lists=lists)
            ops.append(['CREATE', TM.J(t1), TM.J(TM.mutate(rng, t1, nv + 2, depth)), rng.random() < 0.2])
        elif k < 0.21:
            ops.append(['START', rng.randrange(3)])
        elif k < 0.23:
            ops.append(['FAULT', rng.choice(('list', 'nest')), rng.choice(('terms', 'boundvar', 'boundvar')), rng.randrange(nv)])
        elif k < 0.12 + p_pop:
            ops.append(['POP', rng.choice(('close', 'drop', 'resume', 'throw'))])
        else:
            t1 = TM.rnd_term(rng, nv + 2, depth, lists=lists)
            if rng.random() < 0.7:
                t2 = TM.mutate(rng, t1, nv + 2, depth)
            else:
                t2 = TM.rnd_term(rng, nv + 2, depth, lists=lists)
            if rng.random() < 0.5:
                t1, t2 = t2, t1
            ops.append(['PUSH', TM.J(t1), TM.J(t2), rng.random() < 0.35, rng.random() < 0.1])
    return {'nv': nv, 'ops': ops, 'max_depth': max_depth}


def sample_view(plan):
    out = []
    for op in plan['ops']:
        if op[0] == 'PUSH':
            out.append('PUSH %s = %s%s%s' % (TM.show(TM.T(op[1])), TM.show(TM.T(op[2])), ' +swap-trial' if op[3] else '',
                                             ' +atoms-of-another-engine' if len(op) > 4 and op[4] else ''))
        elif op[0] == 'KEEP':
            out.append('KEEP %s (built once, used by later PUSHK)' % TM.show(TM.T(op[1])))
        elif op[0] == 'PUSHK':
            out.append('PUSHK kept#%d = %s%s' % (op[1], {'near': '<copy of the kept term with its last leaf replaced by %s>' % TM.show(TM.T(op[2])), 'var': '_V0', 'given': TM.show(TM.T(op[2]))}[op[4]], ' +swap-trial' if op[3] else ''))
        elif op[0] == 'CREATE':
            out.append('CREATE %s = %s%s (generator made now, started later)' % (TM.show(TM.T(op[1])), TM.show(TM.T(op[2])),
                                                                              ' +atoms-of-another-engine' if op[3] else ''))
        else:
            out.append(' '.join(map(str, op)))
    return {'pool_variables': plan['nv'], 'history': out}


def replace_last_leaf(t, leaf):
    """t with its last leaf (depth-first, last argument first) replaced"""
    if t[0] != 'f' or not t[2]:
        return leaf
    return ('f', t[1], t[2][:-1] + (replace_last_leaf(t[2][-1], leaf),))


def execute(plan):
    from yldprolog.engine import YP, unify
    log = core.Log(keep=plan.get('_keep', False))
    yp = YP()
    yp2 = YP()          # a second engine: atoms of the same name made by it must unify with this engine's
    pool = Pool(yp, max(1, plan['nv']))
    pool2 = Pool(yp2, 0)
    pool2.vars = pool.vars          # same variable objects, other atom store
    s = {}
    stack = []      # (task, substitution before)
    kept = []       # (model term, engine term) built by KEEP
    pending = []    # generators made by CREATE and not started yet: dict(gen, t1, t2, e1, e2, depth)

    def build2(t, foreign):
        return (pool2 if foreign else pool).build(t)

    def judge(t1, t2, e1, e2, make, swap, foreign, tag):
        """starts one unification under the current stack and applies the oracles.
        returns False if a violation was logged"""
        nonlocal s
        s2 = TM.munify(t1, t2, s)
        log.count('cases')
        want_ok = s2 is not None
        want_form = pool.model_all(s2 if want_ok else s)
        r1, r2 = TM.resolve(t1, s), TM.resolve(t2, s)
        if bool(stack) or r1[0] == 'f' or r2[0] == 'f':
            log.key((TM.canon([r1, r2]), want_ok, tag))
        if stack:
            log.count('push_under_bindings')
        if len(stack) >= 3:
            log.count('push_under_deep_stack')
        if len(stack) >= 9:
            log.count('push_under_long_chain')
        if foreign:
            log.count('atoms_of_another_engine')
        if TM.size(r1) > 40 and TM.size(r2) > 40:
            log.count('push_of_big_terms')
        trial = None
        if swap:
            # symmetric trial: unify(t2, t1), observe, undo
            log.count('swap_trial')
            tt = GenTask(unify(build2(t2, foreign), pool.build(t1)))
            ok = tt.step()
            trial = (ok, pool.observe_all())
            tt.close()
        task = GenTask(make())
        ok = task.step()
        log.ev(tag, TM.show(t1), TM.show(t2), ok)
        if ok != want_ok:
            log.violation('wrong-outcome', {'t1': TM.show(r1), 't2': TM.show(r2), 'engine_yields': ok, 'unifiable': want_ok, 'how': tag})
            return False
        form = pool.observe_all()
        if trial is not None and trial != (ok, form):
            log.violation('asymmetric', {'t1': TM.show(r1), 't2': TM.show(r2), 'unify_t1_t2': [ok, repr(form)],
                                         'unify_t2_t1': [trial[0], repr(trial[1])]})
            return False
        if ok:
            log.count('push_ok')
            ids = pool.ids()
            o1, o2 = TM.observe(e1, ids), TM.observe(e2, ids)
            if o1 != o2:
                log.violation('sides-differ-at-yield', {'t1': TM.show(r1), 't2': TM.show(r2), 'lhs': TM.show(o1), 'rhs': TM.show(o2)})
                return False
            if form != want_form:
                log.violation('not-most-general', {'t1': TM.show(r1), 't2': TM.show(r2), 'how': tag,
                                                   'engine': [TM.show(x) for x in form], 'mgu': [TM.show(x) for x in want_form]})
                return False
            stack.append((task, s))
            s = s2
        else:
            log.count('push_fail')
            if form != want_form:
                log.violation('failed-unify-left-bindings', {'t1': TM.show(r1), 't2': TM.show(r2),
                                                            'engine': [TM.show(x) for x in form]})
                return False
            # a failed unification must stay failed
            if task.step():
                log.violation('yields-after-failure', {'t1': TM.show(r1), 't2': TM.show(r2)})
                return False
        return True

    try:
        for op in plan['ops']:
            if op[0] == 'NEWVAR':
                pool.newvar()
                log.ev('newvar', len(pool))
            elif op[0] == 'POP':
                if not stack:
                    log.ev('pop-noop')
                    continue
                task, s_before = stack.pop()
                out = end_task(task, op[1])
                log.count('pop_' + op[1])
                log.ev('pop', op[1], out)
                if op[1] == 'resume' and out[1] != 0:
                    log.violation('yields-twice', {'extra_yields': out[1]})
                    break
                # The model pops too.  Whether the engine really undid the bindings is not judged
                # here (that is C03's clause); but every later unification is started "under the stack
                # of still active bindings" the consumer holds, so a binding that was not undone - or
                # an alias that was lost - shows as a wrong outcome or a non-most-general result there.
                s = s_before
                # a generator made under bindings that are gone now is not started any more: unify()
                # dereferences its arguments when it is called, which is only meaningful while the
                # bindings it saw are still active
                for pd in [x for x in pending if x['depth'] > len(stack)]:
                    pending.remove(pd)
                    g = pd.pop('gen')
                    g.close() if hasattr(g, 'close') else None
                    del g
                    log.ev('pending-discarded')
            elif op[0] == 'PUSH':
                if len(stack) >= plan.get('max_depth', 6):
                    log.ev('push-noop')
                    continue
                foreign = len(op) > 4 and op[4]
                t1, t2 = pool.norm(TM.T(op[1])), pool.norm(TM.T(op[2]))
                if TM.munify_any_order_cyclic(t1, t2, s):
                    log.count('skipped_cyclic')
                    log.ev('skip-cyclic')
                    continue
                e1, e2 = pool.build(t1), build2(t2, foreign)
                if not judge(t1, t2, e1, e2, lambda: unify(e1, e2), op[3], foreign, 'push'):
                    break
            elif op[0] == 'CLEAR':
                yp.clear()
                log.count('clear_under_open_unifications' if stack else 'clear')
                log.ev('clear')
                form = pool.observe_all()
                if form != pool.model_all(s):
                    log.violation('clear-changed-bindings', {'engine': [TM.show(x) for x in form], 'model': [TM.show(x) for x in pool.model_all(s)]})
                    break
            elif op[0] == 'KEEP':
                if len(kept) < 4:
                    t = pool.norm(TM.T(op[1]))
                    kept.append((t, pool.build(t)))
                    log.count('term_kept')
                log.ev('keep')
            elif op[0] == 'PUSHK':
                if not kept or len(stack) >= plan.get('max_depth', 6):
                    log.ev('push-noop')
                    continue
                t1, e1 = kept[op[1] % len(kept)]
                if op[4] == 'near':
                    t2 = replace_last_leaf(t1, pool.norm(TM.T(op[2])))
                elif op[4] == 'var':
                    t2 = ('v', 0)
                else:
                    t2 = pool.norm(TM.T(op[2]))
                if TM.munify_any_order_cyclic(t1, t2, s):
                    log.count('skipped_cyclic')
                    log.ev('skip-cyclic')
                    continue
                e2 = pool.build(t2)
                log.count('push_of_kept_term')
                if not judge(t1, t2, e1, e2, lambda: unify(e1, e2), op[3], False, 'push-kept'):
                    break
            elif op[0] == 'FAULT':
                # Depth fault: the interpreter raises RecursionError in the middle of a unification or of a
                # dereference started under the current stack; the consumer handles it.  Later unifications must
                # behave as if it had never been attempted.
                from ..machine import deep_model_term, LowRecursionLimit
                how = op[2] if len(op) > 2 else 'terms'
                raised = False
                if how == 'boundvar' and len(stack) < plan.get('max_depth', 6):
                    # first bind a pool variable to a 150-deep term (an ordinary, judged unification) ...
                    vi = (op[3] if len(op) > 3 else 0) % len(pool)
                    t1, t2 = ('v', vi), deep_model_term(op[1], 150)
                    if TM.munify_any_order_cyclic(t1, t2, s):
                        log.ev('skip-cyclic')
                        continue
                    e1, e2 = pool.build(t1), pool.build(t2)
                    if not judge(t1, t2, e1, e2, lambda: unify(e1, e2), False, False, 'push-deep'):
                        break
                    # ... then dereference it through a unification with only 60 frames of stack left
                    w = yp.variable()
                    with LowRecursionLimit(60):
                        try:
                            ft = GenTask(unify(pool.vars[vi], w))
                            if ft.step():
                                ft.close()
                        except RecursionError:
                            raised = True
                    ft = None
                else:
                    a = pool.build(deep_model_term(op[1], 600))
                    b = pool.build(deep_model_term(op[1], 600, ('v', 0)))
                    with LowRecursionLimit(80):
                        try:
                            ft = GenTask(unify(a, b))
                            if ft.step():
                                ft.close()
                        except RecursionError:
                            raised = True
                    ft = None
                    del a, b
                log.count('fault_recursion_inside_unify')
                log.count('fault_' + how)
                log.ev('fault', op[1], how, raised)
            elif op[0] == 'CREATE':
                if len(pending) >= 3:
                    log.ev('create-noop')
                    continue
                t1, t2 = pool.norm(TM.T(op[1])), pool.norm(TM.T(op[2]))
                e1, e2 = pool.build(t1), build2(t2, op[3])
                pending.append({'gen': unify(e1, e2), 't1': t1, 't2': t2, 'e1': e1, 'e2': e2, 'depth': len(stack), 'foreign': op[3]})
                log.ev('create', TM.show(t1), TM.show(t2))
            elif op[0] == 'START':
                if not pending or len(stack) >= plan.get('max_depth', 6):
                    log.ev('start-noop')
                    continue
                pd = pending.pop(op[1] % len(pending))
                if TM.munify_any_order_cyclic(pd['t1'], pd['t2'], s):
                    log.count('skipped_cyclic')
                    g = pd.pop('gen')
                    g.close() if hasattr(g, 'close') else None
                    del g
                    continue
                if len(stack) > pd['depth']:
                    log.count('started_under_more_bindings_than_created')
                box = [pd.pop('gen')]       # the task must end up holding the only reference (a drop must be a true drop)
                if not judge(pd['t1'], pd['t2'], pd['e1'], pd['e2'], box.pop, False, pd['foreign'], 'created-earlier-started-now'):
                    break
    except TM.TooDeep:
        log.violation('cyclic-term-built', {'note': 'engine built a cyclic term for a pair the model finds acyclic'})
    except RecursionError:
        log.violation('recursion-error', {'note': 'engine recursed without bound on finite acyclic terms'})
    while stack:
        stack.pop()[0].close()
    for pd in pending:
        if hasattr(pd['gen'], 'close'):
            pd['gen'].close()
    return log.result()


def simplify(plan):
    if plan['nv'] > 1:
        c = dict(plan)
        c['nv'] = plan['nv'] - 1
        yield c
    for k, op in enumerate(plan['ops']):
        if op[0] == 'PUSH' and op[3]:
            c = dict(plan)
            c['ops'] = plan['ops'][:k] + [op[:3] + [False]] + plan['ops'][k + 1:]
            yield c
    yield from simplify_ops_terms(plan, {'PUSH': (1, 2), 'CREATE': (1, 2), 'KEEP': (1,), 'PUSHK': (2,)})


def witness(plan, viol):
    v = sample_view(plan)
    return viol['class'] + ': ' + ' ; '.join(v['history'])
