"""C08 - call resolution: facts first, exact arity, load order, late binding.  Seeded
histories of register/load(overwrite on/off)/failing loads/assert/clear against a
list-of-definitions model, with injected load failures (syntax error, raise at
statement k, I/O errors through a fake open) (DESIGN.md section 4, C08)."""
import io, random, contextlib
from .. import core
from ..seams import FakeFS

PROP = 'C08'
LEVEL = 'exploration'
CASES_ARE_COUNTED = True
TIERS = {'quick': {'runs': 12000, 'budget_s': 45}, 'thorough': {'runs': 900000, 'budget_s': 900}}
RULE = ('one run = one seeded history (3-20 ops) on one engine of: load a compiled snippet (9 snippets with tagged answers, clause-local cuts, '
        'cross-snippet calls, calls to natives, several arities of one name) from a string or through a fake file, with overwrite on/off; failing '
        'loads (Python syntax error, exception raised after the k-th def, file not found / permission denied / undecodable / I/O error); '
        'register_function with inferred, explicit and variadic arity (also under reserved API names); assert_fact front/back; clear; calls kept suspended across any of these and resumed later. After EVERY '
        'op all 14 name/arity pairs (defined, undefined, other arities, reserved names) are read back and compared with a list-of-definitions '
        'model. A case = one op + read-back; non-trivial = the op changed the model or was a failing load on a non-empty engine; distinct = hash '
        'of (op, model state before the op)')
ASSUMPTIONS = [
    'register_function on an existing key replaces the chain of definitions (the statement is silent; the model follows the code and only consistency is asserted)',
    'snippets are real compiler output, compiled once per process; their meaning in the model is given by a 4-constructor definition language',
    'a failing load must raise to the caller and leave every read-back unchanged',
]
COMPONENTS = {'real': ['yldprolog.engine query/load_script_from_string/load_script_from_file/register_function/chain_functions/assert_fact/clear', 'compiler output for the snippets'],
              'stub': ['file system seen by load_script_from_file (in-memory fake open, injects I/O errors)', 'native predicates (tagged answers)'],
              'oracle': ['definition-table model: per name/arity facts first, then the chain of definitions registered for exactly that arity, variadic only if none, each definition with its own cut']}
REQUIRED_PROBES = ('same_script_loaded_by_another_engine_first', 'readback_first_argument_bound_over_many_facts', 'op_assertbulk', 'readback_through_meta_calls', 'op_reg_decorated', 'op_reg_star-rest', 'assert_with_atom_object_not_current', 'op_reg_partial', 'op_reg_bound-method', 'op_reg_callable-object', 'op_regfail', 'suspended_call_resumed_after_change', 'op_load_overwrite', 'op_load_append', 'op_loadfail_syntax', 'op_loadfail_raise', 'op_loadfail_io', 'op_reg_inferred', 'op_reg_explicit',
                   'op_reg_variadic', 'op_assert', 'op_clear', 'chain_of_2plus_definitions', 'variadic_used', 'variadic_shadowed_by_exact', 'reserved_name_registered',
                   'load_via_file')

# definition language of the model:
#   ['rows', [row...], cut_after]     clauses that are facts; cut_after = index of the clause ending in '!' or None
#   ['call', name, arity]             head(Args) :- name(Args).
#   ['firstthen', name]               head(X,Y) :- name(X), !, name(Y).
#   ['py', tag]                       native: unifies its first argument with the atom tag
SNIPPETS = [
    ("p(s0a).\np(s0b).\nq(s0q,s0r).\n", {('p', 1): ['rows', [['s0a'], ['s0b']], None], ('q', 2): ['rows', [['s0q', 's0r']], None]}),
    ("p(s1a) :- !.\np(s1b).\n", {('p', 1): ['rows', [['s1a'], ['s1b']], 0]}),
    ("p(s2a).\np(s2b,s2c).\nr(X) :- p(X).\n", {('p', 1): ['rows', [['s2a']], None], ('p', 2): ['rows', [['s2b', 's2c']], None], ('r', 1): ['call', 'p', 1]}),
    ("q(X,Y) :- p(X), !, p(Y).\nr(s3r).\n", {('q', 2): ['firstthen', 'p'], ('r', 1): ['rows', [['s3r']], None]}),
    ("main(X) :- sub(X).\n", {('main', 1): ['call', 'sub', 1]}),
    ("sub(s5a).\nsub(s5b).\n", {('sub', 1): ['rows', [['s5a'], ['s5b']], None]}),
    ("p.\np(s6a).\np(s6b) :- !.\np(s6c).\nsub(X) :- r(X).\n", {('p', 0): ['rows', [[]], None], ('p', 1): ['rows', [['s6a'], ['s6b'], ['s6c']], 1], ('sub', 1): ['call', 'r', 1]}),
    ("r(s7a).\nr(s7b) :- !.\nmain(s7m).\n", {('r', 1): ['rows', [['s7a'], ['s7b']], 1], ('main', 1): ['rows', [['s7m']], None]}),
    ("p(X,Y,Z) :- q(X,Y), r(Z).\n", {('p', 3): ['join', ('q', 2), ('r', 1)]}),
    ("is_a(s9a).\nis_a(s9b) :- !.\nis_a(s9c).\nmy_long_name(s9x,s9y).\n", {('is_a', 1): ['rows', [['s9a'], ['s9b'], ['s9c']], 1], ('my_long_name', 2): ['rows', [['s9x', 's9y']], None]}),
    ("is_a(s10a).\nmain(X) :- is_a(X).\n", {('is_a', 1): ['rows', [['s10a']], None], ('main', 1): ['call', 'is_a', 1]}),
    # predicates whose *names* equal the internal keys of other predicates (p/1 is stored as 'p_1', q/2 as 'q_2')
    # a directly recursive predicate: the inner call rp(s12a) is a call like any other (facts first, every definition of rp/1)
    ("rp(s12a).\nrp(X) :- X = s12b, rp(s12a).\n", {('rp', 1): ['selfrec', 's12a', 's12b']}),
    # a script that installs more than 16 definitions
    (''.join('fill%02d(b%02d).\n' % (i, i) for i in range(20)) + "r(s13r).\nsub(s13s).\n", {('r', 1): ['rows', [['s13r']], None], ('sub', 1): ['rows', [['s13s']], None]}),
    ("'_aux'(s14a).\n'_aux'(s14b).\nr(X) :- '_aux'(X).\n", {('_aux', 1): ['rows', [['s14a'], ['s14b']], None], ('r', 1): ['call', '_aux', 1]}),
    ("p_1.\np_1(s11a).\nq_2(s11b).\n", {('p_1', 0): ['rows', [[]], None], ('p_1', 1): ['rows', [['s11a']], None], ('q_2', 1): ['rows', [['s11b']], None]}),
]
NAMES = [('once', 1), ('_aux', 1), ('rp', 1), ('p_1', 0), ('p_1', 1), ('q_2', 1), ('is_a', 1), ('is_a', 2), ('my_long_name', 2), ('p', 0), ('p', 1), ('p', 2), ('p', 3), ('q', 2), ('r', 1), ('main', 1), ('sub', 1), ('zz', 1), ('q', 1), ('atom', 1), ('query', 2), ('unify', 2), ('sub', 0)]
REG_TARGETS = [('once', 1), ('_aux', 1), ('rp', 1), ('p_1', 0), ('q_2', 1), ('is_a', 1), ('is_a', 1), ('my_long_name', 2), ('p', 1), ('p', 2), ('sub', 1), ('zz', 1), ('p', 0), ('r', 1), ('atom', 1), ('unify', 2), ('q', 2), ('p', 3)]
ASSERT_TARGETS = [('rp', 1), ('is_a', 1), ('p', 1), ('p', 2), ('sub', 1), ('p', 0), ('r', 1), ('q', 2), ('atom', 1), ('p', 3), ('main', 1)]
RESERVED = {'variable', 'atom', 'functor', 'functor1', 'functor2', 'functor3', 'listpair', 'makelist', 'ATOM_NIL', 'unify', 'match_dynamic', 'query', 'True', 'False', '__builtins__'}
_CODE = None
READ_CAP = 300       # answers compared per read-back (engine and model truncated alike)


def prewarm():
    global _CODE
    if _CODE is None:
        from yldprolog.compiler import compile_prolog_from_string
        with contextlib.redirect_stderr(io.StringIO()):
            _CODE = [compile_prolog_from_string(src) for src, _ in SNIPPETS]


def types_method(f):
    """f as a bound method of a throw-away object"""
    import types

    class Holder:
        pass
    return types.MethodType(lambda self, *a: f(*a), Holder()) if False else _bound(f)


def _bound(f):
    import inspect
    n = len(inspect.signature(f).parameters)

    class Holder:
        def m0(self):
            return f()

        def m1(self, a):
            return f(a)

        def m2(self, a, b):
            return f(a, b)

        def m3(self, a, b, c):
            return f(a, b, c)
    return getattr(Holder(), 'm%d' % n)


def callable_object(f, ar):
    class C0:
        def __call__(self):
            return f()

    class C1:
        def __call__(self, a):
            return f(a)

    class C2:
        def __call__(self, a, b):
            return f(a, b)

    class C3:
        def __call__(self, a, b, c):
            return f(a, b, c)
    return [C0, C1, C2, C3][ar]()


def gen(seed, tier):
    rng = random.Random(seed)
    ops = []
    p_fail = rng.choice((0.05, 0.15, 0.3))
    suspend_heavy = rng.random() < 0.3
    focus = rng.choice([('p', 1), ('is_a', 1), ('r', 1), ('sub', 1)])
    focus_snips = [i for i, (_, d) in enumerate(SNIPPETS) if focus in d and d[focus][0] == 'rows']
    for _ in range(rng.randrange(3, 21 * (2 if tier == 'thorough' else 1))):
        k = rng.random()
        if suspend_heavy:
            # many calls kept suspended on one predicate while definitions of that predicate are appended
            if k < 0.3 and focus_snips:
                ops.append(['load', rng.choice(focus_snips), rng.random() < 0.15, 'string'])
                continue
            if k < 0.38:
                # facts and registrations of the focus predicate come and go under the suspended calls as well
                if rng.random() < 0.5:
                    ops.append(['assert', focus[0], focus[1], rng.random() < 0.3, 'current'])
                else:
                    ops.append(['reg', focus[0], focus[1], rng.choice(['inferred', 'explicit']), rng.random() < 0.5, 'function'])
                continue
            if k < 0.5:
                ops.append(['qstart', focus[0], focus[1]])
                continue
            if k < 0.75:
                ops.append(['qstep', rng.randrange(2)])
                continue
            k = rng.random()
        if k < 0.03:
            # load a script, re-register one of the predicates it defines, load the very same script again with overwrite
            i = rng.randrange(len(SNIPPETS))
            via = 'file' if rng.random() < 0.3 else 'string'
            cands = [key for key in SNIPPETS[i][1] if key in REG_TARGETS]
            if cands:
                name, ar = rng.choice(cands)
                ops.append(['load', i, True, via])
                ops.append(['reg', name, ar, rng.choice(['inferred', 'explicit', 'variadic']), rng.random() < 0.5, 'function'])
                ops.append(['load', i, True, via])
        elif k < 0.05:
            # many facts at once, one of the early ones with an unbound first argument
            name, ar = rng.choice([('p', 1), ('p', 2), ('is_a', 1), ('sub', 1), ('r', 1), ('q', 2)])
            ops.append(['assertbulk', name, ar, rng.choice((20, 34, 40)), rng.randrange(0, 6)])
        elif k < 0.36:
            ops.append(['load', rng.randrange(len(SNIPPETS)), rng.random() < 0.5, 'file' if rng.random() < 0.3 else 'string'])
        elif k < 0.36 + p_fail:
            kind = rng.choice(['syntax', 'raise', 'nofile', 'perm', 'decode', 'ioerror'])
            ops.append(['loadfail', rng.randrange(len(SNIPPETS)), kind, rng.random() < 0.5, rng.randrange(0, 4)])
        elif k < 0.72:
            name, ar = rng.choice(REG_TARGETS)
            ops.append(['reg', name, ar, rng.choice(['inferred', 'explicit', 'variadic']), rng.random() < 0.5, rng.choice(['function', 'function', 'partial', 'bound-method', 'callable-object', 'decorated', 'star-rest'])])
        elif k < 0.86:
            name, ar = rng.choice(ASSERT_TARGETS)
            ops.append(['assert', name, ar, rng.random() < 0.3, rng.choice(('current', 'current', 'kept', 'foreign'))])
        elif k < 0.9:
            name, ar = rng.choice([('p', 1), ('p', 1), ('r', 1), ('sub', 1), ('main', 1), ('p', 2), ('q', 2), ('is_a', 1)])
            ops.append(['qstart', name, ar])
        elif k < 0.96:
            ops.append(['qstep', rng.randrange(2)])
        elif k < 0.975:
            name, ar = rng.choice(REG_TARGETS)
            ops.append(['regfail', name, rng.choice(('not-callable', 'no-signature'))])
        else:
            ops.append(['clear'])
    return {'ops': ops, 'readback_every': rng.choice((1, 1, 1, 1, 3, 1000))}


def show_op(op):
    if op[0] == 'load':
        return 'load snippet%d overwrite=%s via %s' % (op[1], op[2], op[3])
    if op[0] == 'loadfail':
        return 'failing load (%s, k=%d) of snippet%d overwrite=%s' % (op[2], op[4], op[1], op[3])
    if op[0] == 'reg':
        return 'register_function %s/%d %s yields %s%s' % (op[1], op[2], op[3], op[4], '' if len(op) < 6 or op[5] == 'function' else ' as a ' + op[5])
    if op[0] == 'assert':
        return 'assert_fact %s/%d %s%s' % (op[1], op[2], 'front' if op[3] else 'back', '' if len(op) < 5 or op[4] == 'current' else ' (name atom: %s)' % op[4])
    if op[0] == 'assertbulk':
        return 'assert_fact %d facts on %s/%d, fact #%d with an unbound first argument' % (op[3], op[1], op[2], op[4])
    if op[0] == 'qstart':
        return 'call %s/%d and take its first answer (keep the generator suspended)' % (op[1], op[2])
    if op[0] == 'qstep':
        return 'next answer of suspended call #%d' % op[1]
    if op[0] == 'regfail':
        return 'register_function %s with an object whose arity cannot be inferred (%s): raises' % (op[1], op[2])
    return op[0]


def sample_view(plan):
    return {'history': [show_op(op) for op in plan['ops']], 'snippets': {('snippet%d' % i): s for i, (s, _) in enumerate(SNIPPETS)}}


class Model:
    def __init__(self):
        self.facts = {}
        self.defs = {}
        self.var = {}

    def state(self):
        return (sorted((k, tuple(map(tuple, v))) for k, v in self.facts.items() if v), sorted((k, repr(v)) for k, v in self.defs.items() if v),
                sorted((k, repr(v)) for k, v in self.var.items() if v))

    def def_answers(self, d, key, depth):
        kind = d[0]
        if kind == 'rows':
            rows = [list(r) for r in d[1]]
            return rows if d[2] is None else rows[:d[2] + 1]
        if kind == 'call':
            return self.answers((d[1], d[2]), depth + 1)
        if kind == 'firstthen':
            a = self.answers((d[1], 1), depth + 1)
            return [[a[0][0], y[0]] for y in a] if a else []
        if kind == 'join':
            return [x + y for x in self.answers(tuple(d[1]), depth + 1) for y in self.answers(tuple(d[2]), depth + 1)]
        if kind == 'py':
            return [[d[1]] + [None] * (key[1] - 1)] if key[1] >= 1 else [[]]
        if kind == 'selfrec':
            # a(first). a(X) :- X = second, a(first).   the inner call has as many solutions as a/1 has answers equal to `first`
            return [[d[1]]] + [[d[2]]] * self.count_equal(key, d[1], depth + 1)
        raise ValueError(d)

    def count_equal(self, key, value, depth):
        """number of answers of the call key(value) with a ground first argument"""
        if depth > 8:
            raise RecursionError
        n = sum(1 for r in self.facts.get(key, []) if r and r[0] == value)
        if key[0] in RESERVED:
            return n
        ds = self.defs.get(key) or self.var.get(key[0]) or []
        for d in ds:
            if d[0] == 'rows':
                rows = d[1] if d[2] is None else d[1][:d[2] + 1]
                n += sum(1 for r in rows if r and r[0] == value)
            elif d[0] == 'selfrec':
                n += 1 if d[1] == value else (self.count_equal(key, d[1], depth + 1) if d[2] == value else 0)
            elif d[0] == 'py':
                n += 1 if d[1] == value else 0
            elif d[0] == 'call':
                n += self.count_equal((d[1], d[2]), value, depth + 1)
            else:
                n += sum(1 for r in self.def_answers(d, key, depth + 1) if r and r[0] == value)
        return n

    def flat(self, key):
        """True if the answers of key do not depend on calls made later during the enumeration"""
        ds = self.defs.get(key) or (self.var.get(key[0]) or [] if key[0] not in RESERVED else [])
        return all(d[0] in ('rows', 'py') for d in ds)          # (selfrec makes an inner call: not flat)

    def answers(self, key, depth=0):
        if depth > 8:
            raise RecursionError
        out = [list(r) for r in self.facts.get(key, [])]
        if key[0] in RESERVED:
            return out
        ds = self.defs.get(key) or []
        if not ds:
            ds = self.var.get(key[0]) or []
        for d in ds:
            out += self.def_answers(d, key, depth)
        return out


def execute(plan):
    from yldprolog.engine import YP, unify, to_python
    import yldprolog.engine as E
    prewarm()
    log = core.Log(keep=plan.get('_keep', False))
    fs = FakeFS()
    fs.install()
    yp = YP()
    m = Model()
    counter = [0]

    def readback():
        for key in NAMES:
            if key == ('once', 1) and not m.defs.get(key):
                continue        # the builtin once/1 itself is not read back, only a registration that replaces it
            vs = [yp.variable() for _ in range(key[1])]
            try:
                got = []
                for _ in yp.query(key[0], vs):
                    got.append([to_python(v) for v in vs])
                    if len(got) >= READ_CAP:
                        break
            except Exception as e:
                return {'predicate': '%s/%d' % key, 'raises': type(e).__name__}
            want = m.answers(key)[:READ_CAP]
            if got != want:
                return {'predicate': '%s/%d' % key, 'engine': got[:10], 'model': want[:10]}
            if key[1] >= 1 and len(m.facts.get(key, [])) >= 20 and key[0] not in RESERVED and key != ('rp', 1):
                ds_ = m.defs.get(key) or m.var.get(key[0]) or []
                if all((d[0] == 'rows' and d[2] is None) or d[0] == 'py' for d in ds_):
                    # many facts: the same call with its first argument bound (facts first, in order - whatever the engine
                    # uses to find the candidates)
                    full = m.answers(key)
                    vals = [r[0] for r in full if r[0] is not None]
                    for val in (vals[len(vals) // 2:][:1] + vals[-1:]):
                        vs = [yp.variable() for _ in range(key[1] - 1)]
                        args = [yp.atom(val)] + vs
                        try:
                            got = []
                            for _ in yp.query(key[0], args):
                                got.append([to_python(a) for a in args])
                                if len(got) >= READ_CAP:
                                    break
                        except Exception as e:
                            return {'predicate': '%s/%d with first argument %s' % (key[0], key[1], val), 'raises': type(e).__name__}
                        want2 = [[val] + r[1:] for r in full if r[0] is None or r[0] == val][:READ_CAP]
                        log.count('readback_first_argument_bound_over_many_facts')
                        if got != want2:
                            return {'predicate': '%s/%d with first argument %s' % (key[0], key[1], val), 'engine': got[:10], 'model': want2[:10]}
            if key[1] == 0 or len(m.answers(key)) > 60:
                continue
            # the same call made by the meta-call builtins: call/1 and findall/3 resolve name/N like any other call
            vs = [yp.variable() for _ in range(key[1])]
            try:
                got = []
                for _ in yp.query('call', [yp.functor(key[0], vs)]):
                    got.append([to_python(v) for v in vs])
                    if len(got) >= READ_CAP:
                        break
            except Exception as e:
                return {'predicate': 'call(%s/%d)' % key, 'raises': type(e).__name__}
            if got != want:
                return {'predicate': 'call(%s/%d)' % key, 'engine': got[:10], 'model': want[:10]}
            # ... and by call/N with one goal term per predicate kept by the caller and used again at every read-back
            if key not in kept_goals:
                gv_ = [yp.variable() for _ in range(key[1] - 1)]
                kept_goals[key] = (yp.functor(key[0], gv_) if gv_ else yp.atom(key[0]), gv_)
            goal_, gv_ = kept_goals[key]
            last_ = yp.variable()
            try:
                got = []
                for _ in yp.query('call', [goal_, last_]):
                    got.append([to_python(v) for v in gv_ + [last_]])
                    if len(got) >= READ_CAP:
                        break
            except Exception as e:
                return {'predicate': 'call(<kept goal %s/%d>, X)' % (key[0], key[1] - 1), 'raises': type(e).__name__}
            if got != want:
                return {'predicate': 'call(<kept goal %s/%d>, X)' % (key[0], key[1] - 1), 'engine': got[:10], 'model': want[:10]}
            vs = [yp.variable() for _ in range(key[1])]
            bag = yp.variable()
            try:
                got = None
                for _ in yp.query('findall', [yp.functor('row', vs), yp.functor(key[0], vs), bag]):
                    got = [list(r[1]) for r in to_python(bag)]
            except Exception as e:
                return {'predicate': 'findall over %s/%d' % key, 'raises': type(e).__name__}
            log.count('readback_through_meta_calls')
            if got != m.answers(key):
                return {'predicate': 'findall over %s/%d' % key, 'engine': None if got is None else got[:10], 'model': m.answers(key)[:10]}
        return None

    def native(tag, yv):
        def impl(*args):
            if args:
                for _ in unify(args[0], yp.atom(tag)):
                    yield yv
            else:
                yield yv
        return impl

    kept = {}
    other = YP()
    opno = [0]
    kept_goals = {}
    suspended = []       # (generator, variables, answers expected when the call was made, next index)
    for op in plan['ops']:
        kind = op[0]
        before = m.state()
        log.count('cases')
        try:
            if kind in ('qstart', 'qstep'):
                # a call resolves "at the moment it is made": what a suspended call still yields is fixed then,
                # whatever is loaded, registered, asserted or cleared while it is suspended
                if kind == 'qstart':
                    key = (op[1], op[2])
                    if len(suspended) >= 2 or not m.flat(key):
                        log.ev('noop')
                        continue
                    vs = [yp.variable() for _ in range(key[1])]
                    entry = [iter(yp.query(key[0], vs)), vs, m.answers(key)[:READ_CAP], 0, key, m.state()]
                    suspended.append(entry)
                else:
                    if not suspended:
                        log.ev('noop')
                        continue
                    entry = suspended[op[1] % len(suspended)]
                    if entry[5] != m.state():
                        log.count('suspended_call_resumed_after_change')
                        log.key(('resume-after-change', entry[4], entry[3], before))
                try:
                    next(entry[0])
                    got = [to_python(v) for v in entry[1]]
                except StopIteration:
                    got = None
                want = entry[2][entry[3]] if entry[3] < len(entry[2]) else None
                log.ev(kind, entry[4][0], entry[4][1], entry[3], got is not None)
                if got != want:
                    log.violation('suspended-call-differs', {'call': '%s/%d' % entry[4], 'answer_no': entry[3] + 1, 'engine': got, 'resolved_when_called': want,
                                                             'op': show_op(op)})
                    break
                entry[3] += 1
                if got is None:
                    suspended.remove(entry)
                continue
            if kind == 'load':
                _, i, ow, via = op
                log.count('op_load_overwrite' if ow else 'op_load_append')
                if i % 2 == 0 and via != 'file':
                    # another engine instance in the same process has loaded the very same text under the same name before
                    other.load_script_from_string(_CODE[i], fn='<sim:snippet%d>' % i, overwrite=True)
                    log.count('same_script_loaded_by_another_engine_first')
                if via == 'file':
                    log.count('load_via_file')
                    fn = 'snippet%d.py' % i
                    fs.files[fn] = _CODE[i]
                    yp.load_script_from_file(fn, overwrite=ow)
                else:
                    yp.load_script_from_string(_CODE[i], fn='<sim:snippet%d>' % i, overwrite=ow)
                for key, d in SNIPPETS[i][1].items():
                    d = list(d)
                    if ow:
                        m.defs[key] = [d]
                    else:
                        m.defs[key] = (m.defs.get(key) or []) + [d]
                        if len(m.defs[key]) >= 2:
                            log.count('chain_of_2plus_definitions')
            elif kind == 'loadfail':
                _, i, fkind, ow, k = op
                raised = None
                try:
                    if fkind == 'syntax':
                        log.count('op_loadfail_syntax')
                        yp.load_script_from_string(_CODE[i] + '\ndef (:\n', overwrite=ow)
                    elif fkind == 'raise':
                        log.count('op_loadfail_raise')
                        parts = _CODE[i].split('\ndef ')
                        j = 1 + k % len(parts)
                        txt = '\ndef '.join(parts[:j]) + '\n1/0\n' + ('\ndef ' + '\ndef '.join(parts[j:]) if parts[j:] else '')
                        yp.load_script_from_string(txt, overwrite=ow)
                    else:
                        log.count('op_loadfail_io')
                        fn = 'bad_%s.py' % fkind
                        if fkind == 'nofile':
                            fs.files.pop(fn, None)
                        else:
                            fs.files[fn] = ('raise', {'perm': 'PermissionError', 'decode': 'UnicodeDecodeError', 'ioerror': 'OSError'}[fkind])
                        yp.load_script_from_file(fn, overwrite=ow)
                except (SyntaxError, ZeroDivisionError, OSError, UnicodeDecodeError) as e:
                    raised = type(e).__name__
                log.ev('loadfail', fkind, raised)
                if raised is None:
                    log.violation('failing-load-did-not-raise', {'op': show_op(op)})
                    break
                if before != ([], [], []):
                    log.key(('loadfail', fkind, before))
            elif kind == 'reg':
                _, name, ar, style, yv = op[:5]
                ckind = op[5] if len(op) > 5 else 'function'
                counter[0] += 1
                tag = 'py%d' % counter[0]
                impl = native(tag, yv)
                log.count('op_reg_' + style)
                if name in RESERVED:
                    log.count('reserved_name_registered')
                if style == 'variadic':
                    yp.register_function(name, impl, arity=-1)
                    m.var[name] = [['py', tag]]
                else:
                    f = {0: (lambda i: (lambda: i()))(impl), 1: (lambda i: (lambda a: i(a)))(impl), 2: (lambda i: (lambda a, b: i(a, b)))(impl), 3: (lambda i: (lambda a, b, c: i(a, b, c)))(impl)}[ar]
                    if ckind != 'function':
                        # the same predicate as another kind of callable (its arity can still be inferred)
                        import functools
                        log.count('op_reg_' + ckind)
                        if ckind == 'partial':
                            f = functools.partial(f)
                        elif ckind == 'bound-method':
                            f = types_method(f)
                        elif ckind == 'decorated':
                            # an ordinary functools.wraps decorator: the signature is that of the wrapped function
                            f = (lambda g: functools.wraps(g)(lambda *a, **kw: g(*a, **kw)))(f)
                        elif ckind == 'star-rest':
                            # the last parameter collects the rest: (a, *rest) has two parameters
                            f = {0: f, 1: (lambda i: (lambda *rest: i(*rest)))(impl), 2: (lambda i: (lambda a, *rest: i(a, *rest)))(impl),
                                 3: (lambda i: (lambda a, b, *rest: i(a, b, *rest)))(impl)}[ar]
                        else:
                            f = callable_object(f, ar)
                    yp.register_function(name, f, arity=None if style == 'inferred' else ar)
                    m.defs[(name, ar)] = [['py', tag]]
            elif kind == 'regfail':
                log.count('op_regfail')
                try:
                    yp.register_function(op[1], 42 if op[2] == 'not-callable' else type('NoSig', (), {'__call__': None})())
                    raised = False
                except Exception:
                    raised = True
                log.ev('regfail', op[1], op[2], raised)
            elif kind == 'assert':
                _, name, ar, front = op[:4]
                src = op[4] if len(op) > 4 else 'current'
                counter[0] += 1
                row = ['f%d' % counter[0]] * ar
                log.count('op_assert')
                # atoms are equal by name: the caller may use an atom object it obtained earlier (also before a clear())
                # or one made by another engine instance
                if src == 'kept':
                    name_atom = kept.setdefault(name, yp.atom(name))
                elif src == 'foreign':
                    name_atom = other.atom(name)
                else:
                    name_atom = yp.atom(name)
                if name_atom is not yp.atom(name):
                    log.count('assert_with_atom_object_not_current')
                yp.assert_fact(name_atom, [yp.atom(x) for x in row], not front)
                lst = m.facts.setdefault((name, ar), [])
                lst.insert(0, row) if front else lst.append(row)
            elif kind == 'assertbulk':
                _, name, ar, nf, vp = op
                log.count('op_assertbulk')
                lst = m.facts.setdefault((name, ar), [])
                for j in range(nf):
                    counter[0] += 1
                    row = ['f%d' % counter[0]] * ar
                    erow = [yp.atom(x) for x in row]
                    if j == vp:
                        row = [None] + row[1:]
                        erow = [yp.variable()] + erow[1:]
                    yp.assert_fact(yp.atom(name), erow)
                    lst.append(row)
            elif kind == 'clear':
                log.count('op_clear')
                yp.clear()
                m = Model()
        except Exception as e:
            log.violation('raises', {'op': show_op(op), 'exception': type(e).__name__})
            break
        log.ev(*[kind] + [x for x in op[1:]])
        after = m.state()
        if after != before:
            log.key((tuple(op[:4]), before))
        for key in NAMES:
            if m.var.get(key[0]) and key[0] not in RESERVED:
                if m.defs.get(key):
                    log.count('variadic_shadowed_by_exact')
                else:
                    log.count('variadic_used')
        opno[0] += 1
        if opno[0] % plan.get('readback_every', 1) and opno[0] != len(plan['ops']):
            log.count('ops_without_readback')
            continue
        diff = readback()
        if diff:
            diff['after'] = show_op(op)
            log.violation('resolution-differs' if kind != 'loadfail' else 'failing-load-changed-engine', diff)
            break
    for entry in suspended:
        entry[0].close() if hasattr(entry[0], 'close') else None
    E.open = open
    return log.result()


def simplify(plan):
    ops = plan['ops']
    for k, op in enumerate(ops):
        alts = []
        if op[0] == 'load' and op[3] == 'file':
            alts.append(op[:3] + ['string'])
        if op[0] == 'reg' and op[3] != 'explicit':
            alts.append(op[:3] + ['explicit'] + op[4:])
        if op[0] == 'reg' and op[4]:
            alts.append(op[:4] + [False])
        if op[0] == 'assert' and op[3]:
            alts.append(op[:3] + [False])
        if op[0] in ('load', 'loadfail') and op[1] > 0:
            alts.append([op[0], 0] + op[2:])
        for a in alts:
            c = dict(plan)
            c['ops'] = ops[:k] + [a] + ops[k + 1:]
            yield c


def witness(plan, viol):
    return viol['class'] + ': ' + ' ; '.join(show_op(op) for op in plan['ops'])
