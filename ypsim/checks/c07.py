"""C07 - the fact database behaves as ordered lists for every history.  Seeded op
histories (assert*/retract/retractall/clear/query; API, compiled-wrapper and
compiled-inline routes; goals inline or arriving in a bound variable; retract run to
exhaustion, abandoned after k answers, or suspended across other operations) against
an ordered-list model with a full read-back after every step (DESIGN.md section 4, C07)."""
import io, random, contextlib
from .. import core, terms as TM
from ..machine import GenTask, end_task, simplify_ops_terms
from ..models import FactStore

PROP = 'C07'
LEVEL = 'exploration'
CASES_ARE_COUNTED = True
TIERS = {'quick': {'runs': 14000, 'budget_s': 50}, 'thorough': {'runs': 1200000, 'budget_s': 900}}
RULE = ('one run = one seeded history of up to 30 database operations on one engine over predicates p/0 p/1 p/2 q/1 r/3 flag/0 and two '
        'never-asserted ones, ground facts, patterns ground / partial / all-variable / repeated-variable; each op goes through a seeded route '
        '(assert_fact API, query() API, compiled wrapper taking the goal as argument, compiled clause with the goal inline) and form (inline term, '
        'a variable bound to it, or ONE goal term / goal variable per predicate kept by the caller for the whole history whose argument variables are re-bound per operation); retracts are exhausted, abandoned after k answers (close/drop) or held suspended across other ops. '
        'A case = one operation compared with the list model followed by a full read-back of all 10 predicates, with all arguments unbound and with each argument position bound to every value stored there now or earlier; non-trivial = the predicate '
        'had >= 1 fact or the op changed the store; distinct = hash of (op kind, route, form, predicate, pattern, contents of that predicate in the model)')
ASSUMPTIONS = [
    'ground facts only (non-ground stored facts are C13); no mutation of a predicate while one of its enumerations is suspended (that is C14)',
    'after clear() the harness reloads its compiled wrapper clauses, as any API user would have to, and goes on using the atom objects it obtained before (atoms are equal by name)',
    'the observer reads compound terms through Functor._name/_args',
]
COMPONENTS = {'real': ['yldprolog.engine fact store, builtins asserta/assertz/retract/retractall, clear, query', 'compiled wrapper clauses (real compiler output)'],
              'stub': ['consumer / scheduler of the retract generators'],
              'oracle': ['ordered-list model (ypsim.models.FactStore) compared op by op, full read-back after every op']}
REQUIRED_PROBES = ('clear_while_retract_suspended', 'form_reused_goal_object', 'fault_retractall_overflow', 'fault_assert_overflow', 'deep_fact_stored', 'op_badgoal', 'bound_argument_readbacks', 'op_assert', 'op_retract', 'op_retractall', 'op_query', 'op_clear', 'route_fact', 'route_query', 'route_wrap', 'route_inline',
                   'form_bound', 'retract_abandoned', 'retract_suspended_across_ops', 'op_on_predicate_without_facts', 'arity0_ops')

KEYS = [('p', 0), ('p', 1), ('p', 2), ('q', 1), ('r', 3), ('flag', 0), ('findall', 1), ('atom', 1), ('zz', 1), ('yy', 0)]      # findall/1: a name shared with a builtin of another arity; atom/1: named like an engine helper
ASSERTABLE = 8          # the last two keys never get facts
VALS = [['a', 'a'], ['a', 'b'], ['a', 'c'], ['i', 1], ['i', 2], ['f', 'f', [['a', 'a']]], TM.J(TM.mklist([('a', 'a'), ('a', 'b')])),
        ['a', '[]'], TM.J(TM.mklist([('a', 'a')])), ['a', 'x y'], ['a', ''], ['i', 0],
        # plain Python strings are constants of their own: 'a' the string is not a the atom
        ['s', 'a'], ['s', 'b'], ['f', 'f', [['s', 'a']]],
        # constants equal to another one of a different type, an improper list, a '.' structure that is no list cell
        ['i', 1.0], ['i', 0.0], ['f', '.', [['a', 'a'], ['a', 'b']]], ['f', '.', [['a', 'a']]]]

_WRAPPERS = None


def wrapper_source():
    lines = []
    for kind in ('asserta', 'assertz', 'retract', 'retractall'):
        lines.append('w_%s(T) :- %s(T).' % (kind, kind))
        lines.append('w_%s_v(T) :- G = T, %s(G).' % (kind, kind))
    for name, ar in KEYS:
        # (the wrappers of predicates with an odd arity spell their variables with a leading underscore)
        args = ','.join(('_A%d' if ar % 2 else 'A%d') % i for i in range(ar))
        goal = '%s(%s)' % (name, args) if ar else name
        for kind in ('asserta', 'assertz', 'retract', 'retractall'):
            head = 'i_%s_%s_%d' % (kind, name, ar)
            lines.append('%s%s :- %s(%s).' % (head, '(%s)' % args if ar else '', kind, goal))
        head = 'i_query_%s_%d' % (name, ar)
        lines.append('%s%s :- %s.' % (head, '(%s)' % args if ar else '', goal))
    return '\n'.join(lines) + '\n'


def prewarm():
    global _WRAPPERS
    if _WRAPPERS is None:
        from yldprolog.compiler import compile_prolog_from_string
        with contextlib.redirect_stderr(io.StringIO()):
            _WRAPPERS = compile_prolog_from_string(wrapper_source())


def gen_pattern(rng, ar, p_ground):
    out = []
    for _ in range(ar):
        if rng.random() < p_ground:
            out.append(rng.choice(VALS[:5]) if rng.random() < 0.8 else rng.choice(VALS))
        else:
            out.append(['v', rng.randrange(2)])
    return out


def gen(seed, tier):
    rng = random.Random(seed)
    ops = []
    p_bound = rng.choice((0.1, 0.3, 0.5))
    nkeys = rng.choice((2, 4, 10))
    keyset = rng.sample(range(len(KEYS)), nkeys)
    small_vals = rng.choice((2, 3, 7, 12, 15, 19))

    p_reused = rng.choice((0.0, 0.0, 0.3, 0.6))

    def route_form(kinds):
        route = rng.choice(kinds)
        form = 'bound' if (route in ('query', 'wrap') and rng.random() < p_bound) else 'inline'
        if route in ('query', 'wrap') and rng.random() < p_reused:
            # the caller keeps ONE goal term per predicate (and one variable holding it) for the whole history and
            # only changes the bindings of its argument variables from operation to operation
            form = rng.choice(('reused', 'reused-var'))
        return route, form
    if rng.random() < 0.25:
        # bulk mode: one predicate gets many facts first (size-dependent paths: indexes, caches)
        ki = rng.choice([k for k in range(ASSERTABLE) if KEYS[k][1] >= 1])
        keyset = [ki] + keyset[:1]
        for _ in range(rng.randrange(8, 15) if rng.random() < 0.6 else rng.choice((33, 40, 66, 70))):
            row = [rng.choice(VALS[:small_vals + 2]) for _ in range(KEYS[ki][1])]
            ops.append(['assert', rng.random() < 0.2, 'fact', 'inline', ki, row])
    depth_faults = rng.random() < 0.15
    for _ in range(rng.randrange(2, 31 * (2 if tier == 'thorough' else 1))):
        ki = rng.choice(keyset)
        ar = KEYS[ki][1]
        k = rng.random()
        if depth_faults and k < 0.12:
            # depth faults: a fact with a 150-element list; operations attempted with 60 frames of stack left
            ka = ki if (ki < ASSERTABLE and ar >= 1) else 1
            if rng.random() < 0.4:
                ops.append(['deepfact', ka])
            else:
                ops.append(['faultop', rng.choice(('assert', 'retractall', 'retractall', 'query')), ka, gen_pattern(rng, KEYS[ka][1], rng.choice((0.0, 0.5)))])
            continue
        if k < 0.38:
            ka = ki if ki < ASSERTABLE else rng.randrange(ASSERTABLE)
            route, form = route_form(('fact', 'query', 'wrap', 'inline'))
            row = [rng.choice(VALS[:small_vals]) for _ in range(KEYS[ka][1])]
            ops.append(['assert', rng.random() < 0.35, route, form, ka, row])
        elif k < 0.56:
            route, form = route_form(('query', 'wrap', 'inline'))
            pat = gen_pattern(rng, ar, rng.choice((0.0, 0.5, 1.0)))
            kk = None if rng.random() < 0.5 else rng.randrange(0, 4)
            ops.append(['retract', route, form, ki, pat, kk, rng.choice(('close', 'drop'))])
        elif k < 0.66:
            route, form = route_form(('query', 'wrap', 'inline'))
            ops.append(['retractall', route, form, ki, gen_pattern(rng, ar, rng.choice((0.0, 0.5, 1.0)))])
        elif k < 0.74:
            route, form = route_form(('query', 'wrap', 'inline'))
            ops.append(['rstart', route, form, ki, gen_pattern(rng, ar, rng.choice((0.0, 0.5)))])
        elif k < 0.82:
            ops.append(['rstep'])
        elif k < 0.86:
            ops.append(['rend', rng.choice(('close', 'drop', 'resume'))])
        elif k < 0.97:
            ops.append(['query', rng.choice(('api', 'inline')), ki, gen_pattern(rng, ar, rng.choice((0.0, 0.5, 1.0)))])
        elif k < 0.985:
            ops.append(['clear'])
        else:
            # a malformed goal: whatever the builtin does with it (raise, fail), the store must be as before
            ops.append(['badgoal', rng.choice(('asserta', 'assertz', 'retract', 'retractall')), rng.choice(('query', 'wrap')),
                        rng.choice(('int', 'unbound', 'string', 'atom-store-name'))])
    # a read-back is itself a series of queries (which can repair what the previous operation left half-done): in a
    # third of the runs it is done only every 4th operation or only at the end
    return {'ops': ops, 'readback_every': rng.choice((1, 1, 1, 1, 4, 1000))}


def show_goal(ki, pat):
    name, ar = KEYS[ki]
    return name if ar == 0 else '%s(%s)' % (name, ','.join(TM.show(TM.T(t)) for t in pat[:ar]))


def show_op(op):
    if op[0] == 'assert':
        return '%s[%s,%s] %s' % ('asserta' if op[1] else 'assertz', op[2], op[3], show_goal(op[4], op[5]))
    if op[0] == 'retract':
        return 'retract[%s,%s] %s %s' % (op[1], op[2], show_goal(op[3], op[4]), 'exhaust' if op[5] is None else 'abandon-after-%d-%s' % (op[5], op[6]))
    if op[0] in ('retractall', 'rstart'):
        return '%s[%s,%s] %s' % (op[0], op[1], op[2], show_goal(op[3], op[4]))
    if op[0] == 'query':
        return 'query[%s] %s' % (op[1], show_goal(op[2], op[3]))
    if op[0] == 'deepfact':
        return 'assertz %s(<100-element list>%s)' % (KEYS[op[1]][0], ',a' * (KEYS[op[1]][1] - 1))
    if op[0] == 'faultop':
        return 'FAULT %s %s with 60 frames of stack left (handled)' % (op[1], ('%s(<100-element list>...)' % KEYS[op[2]][0]) if op[1] == 'assert' else show_goal(op[2], op[3]))
    if op[0] == 'badgoal':
        return '%s[%s] of a malformed goal (%s)' % (op[1], op[2], op[3])
    return ' '.join(str(x) for x in op)


def sample_view(plan):
    return [show_op(op) for op in plan['ops']]


class KeptAtoms:
    """what TM.build sees instead of the engine: atoms are asked from the engine only once per name and then kept
    by the caller - also across clear(), after which the engine would hand out new objects of the same name
    (atoms are equal by name, whichever object the user holds)"""

    def __init__(self, yp):
        self.yp = yp
        self.kept = {}

    def atom(self, name):
        if name not in self.kept:
            self.kept[name] = self.yp.atom(name)
        return self.kept[name]

    def functor(self, name, args):
        return self.yp.functor(name, args)

    def variable(self):
        return self.yp.variable()


class HeldGroup:
    def __init__(self, tasks):
        self.tasks = tasks

    def close(self):
        for t in reversed(self.tasks):
            t.close()


class Exec:
    def __init__(self, log):
        from yldprolog.engine import YP, unify
        self.unify = unify
        self.log = log
        self.yp = YP()
        self.b = KeptAtoms(self.yp)
        self.load_wrappers()
        self.model = FactStore()
        self.seen = {}
        self.persistent = {}  # key index -> (argument variables, goal term, goal variable), made once and reused
        self.task = None      # suspended retract: dict(task, key, pattern (model), pargs (engine), held, snap, pos)

    def load_wrappers(self):
        prewarm()
        self.yp.load_script_from_string(_WRAPPERS, fn='<sim:wrappers>')

    def goal(self, kind, route, form, ki, pat):
        """returns (generator, engine pattern args, held unification or None)"""
        yp = self.yp
        name, ar = KEYS[ki]
        vmap = {}
        pargs = [TM.build(self.b, TM.T(t), vmap) for t in pat[:ar]]
        held = None
        if route == 'inline':
            return yp.query('i_%s_%s_%d' % (kind, name, ar), pargs), pargs, None
        if form in ('reused', 'reused-var'):
            if ki not in self.persistent:
                pv = [yp.variable() for _ in range(ar)]
                self.persistent[ki] = (pv, yp.functor(name, pv) if ar else self.b.atom(name), yp.variable())
            pv, pterm, gv = self.persistent[ki]
            tasks = []
            for v, a in zip(pv, pargs):
                t = GenTask(self.unify(v, a))
                t.step()
                tasks.append(t)
            term = pterm
            if form == 'reused-var':
                t = GenTask(self.unify(gv, pterm))
                t.step()
                tasks.append(t)
                term = gv
            self.log.count('form_reused_goal_object')
            return yp.query(kind if route == 'query' else 'w_%s' % kind, [term]), pargs, HeldGroup(tasks)
        term = yp.functor(name, pargs) if ar else yp.atom(name)
        if route == 'wrap':
            return yp.query('w_%s%s' % (kind, '_v' if form == 'bound' else ''), [term]), pargs, None
        if form == 'bound':
            g = yp.variable()
            held = GenTask(self.unify(g, term))
            held.step()
            term = g
        return yp.query(kind, [term]), pargs, held

    def observe(self, pargs):
        return TM.observe_canon(pargs)

    def readback(self):
        for name, ar in KEYS:
            vs = [self.yp.variable() for _ in range(ar)]
            got = []
            for _ in self.yp.query(name, vs):
                got.append(self.observe(vs))
                if len(got) > 200:
                    break
            want = [TM.canon(row) for row in self.model.rows((name, ar))]
            if got != want:
                return {'predicate': '%s/%d' % (name, ar), 'engine': [[TM.show(x) for x in r] for r in got[:8]],
                        'model': [[TM.show(x) for x in r] for r in want[:8]]}
            # the same with one argument bound: every value stored now or seen earlier in that position
            # (a query enumerates the *matching* facts in list order)
            for pos in range(ar):
                seen = self.seen.setdefault((name, ar, pos), [])
                for row in self.model.rows((name, ar)):
                    if row[pos] not in seen and len(seen) < 6 and TM.size(row[pos]) < 50:
                        seen.append(row[pos])
                for val in seen:
                    vs = [self.yp.variable() for _ in range(ar)]
                    args = list(vs)
                    args[pos] = TM.build(self.yp, val, {})
                    got = []
                    for _ in self.yp.query(name, args):
                        got.append(self.observe(args))
                        if len(got) > 200:
                            break
                    want = [TM.canon(row) for row in self.model.rows((name, ar)) if row[pos] == val]
                    self.log.count('bound_argument_readbacks')
                    if got != want:
                        return {'predicate': '%s/%d with argument %d bound to %s' % (name, ar, pos + 1, TM.show(val)),
                                'engine': [[TM.show(x) for x in r] for r in got[:8]], 'model': [[TM.show(x) for x in r] for r in want[:8]]}
        return None

    def model_matches(self, key, pattern):
        """records matching the pattern, in list order, with the bindings of the pattern"""
        out = []
        for rid, row in self.model.records(key):
            s = self.model.match(pattern, row, {})
            if s is not None:
                out.append((rid, TM.canon([TM.resolve(p, s) for p in pattern])))
        return out


def execute(plan):
    log = core.Log(keep=plan.get('_keep', False))
    ex = Exec(log)
    yp, model = ex.yp, ex.model
    for n, op in enumerate(plan['ops']):
        kind = op[0]
        busy = ex.task['key'] if ex.task else None
        try:
            if kind == 'assert':
                _, front, route, form, ki, row = op
                key = KEYS[ki]
                if key == busy:
                    log.ev('noop-busy')
                    continue
                row = row[:key[1]]
                log.count('cases'); log.count('op_assert'); log.count('route_' + route)
                if form == 'bound':
                    log.count('form_bound')
                if key[1] == 0:
                    log.count('arity0_ops')
                if route == 'fact':
                    yp.assert_fact(ex.b.atom(key[0]), [TM.build(ex.b, TM.T(t), {}) for t in row], not front)
                    n_ans = 1
                else:
                    g, pargs, held = ex.goal('asserta' if front else 'assertz', route, form, ki, row)
                    t = GenTask(g)
                    n_ans = 0
                    while t.step():
                        n_ans += 1
                        if n_ans > 3:
                            t.close()
                            break
                    if held:
                        held.close()
                model.add(key, [TM.T(t) for t in row], front)
                log.ev('assert', front, route, form, ki, n_ans)
                log.key(('assert', front, route, form, key, tuple(model.rows(key))))
                if n_ans != 1:
                    log.violation('not-exactly-once', {'op': show_op(op), 'answers': n_ans})
                    break
            elif kind in ('retract', 'retractall', 'rstart'):
                _, route, form, ki, pat = op[:5]
                key = KEYS[ki]
                if key == busy or (kind == 'rstart' and ex.task):
                    log.ev('noop-busy')
                    continue
                pat = [TM.T(t) for t in pat[:key[1]]]
                log.count('cases'); log.count('op_' + ('retract' if kind == 'rstart' else kind)); log.count('route_' + route)
                if form == 'bound':
                    log.count('form_bound')
                if key[1] == 0:
                    log.count('arity0_ops')
                if not model.rows(key):
                    log.count('op_on_predicate_without_facts')
                matches = ex.model_matches(key, pat)
                g, pargs, held = ex.goal('retract' if kind == 'rstart' else kind, route, form, ki, op[4])
                t = GenTask(g)
                shape = tuple(p[0] for p in pat)
                if kind == 'retractall':
                    n_ans = 0
                    while t.step():
                        n_ans += 1
                        if n_ans > 3:
                            t.close()
                            break
                    if held:
                        held.close()
                    for rid, _ in matches:
                        model.remove_id(key, rid)
                    log.ev('retractall', route, form, ki, n_ans, len(matches))
                    if matches:
                        log.key(('retractall', route, form, key, tuple(pat), tuple(model.rows(key))))
                    if n_ans != 1:
                        log.violation('not-exactly-once', {'op': show_op(op), 'answers': n_ans})
                        break
                elif kind == 'retract':
                    k, endmode = op[5], op[6]
                    got = []
                    while k is None or len(got) < k:
                        if not t.step():
                            break
                        got.append(ex.observe(pargs))
                        if len(got) > 300:
                            break
                    if not t.done:
                        end_task(t, endmode)
                        log.count('retract_abandoned')
                    if held:
                        held.close()
                    want = [b for _, b in matches][:len(matches) if k is None else k]
                    for rid, _ in matches[:len(want)]:
                        model.remove_id(key, rid)
                    log.ev('retract', route, form, ki, k, len(got), len(want))
                    if matches:
                        log.key(('retract', route, form, key, tuple(pat), k, tuple(model.rows(key))))
                    if got != want:
                        log.violation('wrong-answers', {'op': show_op(op), 'engine': [[TM.show(x) for x in r] for r in got[:6]],
                                                        'model': [[TM.show(x) for x in r] for r in want[:6]]})
                        break
                else:
                    ex.task = {'task': t, 'key': key, 'pargs': pargs, 'held': held, 'todo': matches, 'op': op, 'steps_between': 0}
                    log.ev('rstart', route, form, ki)
            elif kind == 'rstep':
                if not ex.task:
                    log.ev('noop')
                    continue
                tk = ex.task
                log.count('cases')
                if tk['steps_between']:
                    log.count('retract_suspended_across_ops')
                tk['steps_between'] = 0
                ok = tk['task'].step()
                if tk['todo']:
                    rid, want = tk['todo'].pop(0)
                    model.remove_id(tk['key'], rid)
                    got = ex.observe(tk['pargs']) if ok else None
                    log.key(('rstep', tk['op'][1], tk['op'][2], tk['key'], len(tk['todo']), tuple(model.rows(tk['key']))))
                else:
                    want = None
                    got = ex.observe(tk['pargs']) if ok else None
                log.ev('rstep', ok, want is not None)
                if got != want:
                    log.violation('wrong-answers', {'op': show_op(tk['op']) + ' (suspended, stepped)', 'engine': None if got is None else [TM.show(x) for x in got],
                                                    'model': None if want is None else [TM.show(x) for x in want]})
                    break
                if not ok:
                    if tk['held']:
                        tk['held'].close()
                    ex.task = None
            elif kind == 'rend':
                if not ex.task:
                    log.ev('noop')
                    continue
                tk = ex.task
                log.count('cases')
                if op[1] == 'resume':
                    # run it to exhaustion: removes every remaining match
                    n_more = 0
                    while tk['task'].step():
                        n_more += 1
                        if n_more > 300:
                            tk['task'].close()
                            break
                    for rid, _ in tk['todo']:
                        model.remove_id(tk['key'], rid)
                    if n_more != len(tk['todo']):
                        log.violation('wrong-answers', {'op': show_op(tk['op']) + ' (suspended, resumed to exhaustion)', 'engine_answers': n_more, 'model_answers': len(tk['todo'])})
                        break
                else:
                    end_task(tk['task'], op[1])
                    log.count('retract_abandoned')
                if tk['held']:
                    tk['held'].close()
                ex.task = None
                log.ev('rend', op[1])
            elif kind == 'query':
                _, route, ki, pat = op
                key = KEYS[ki]
                pat = [TM.T(t) for t in pat[:key[1]]]
                log.count('cases'); log.count('op_query')
                if not model.rows(key):
                    log.count('op_on_predicate_without_facts')
                vmap = {}
                pargs = [TM.build(ex.b, t, vmap) for t in pat]
                g = yp.query(key[0], pargs) if route == 'api' else yp.query('i_query_%s_%d' % key, pargs)
                got = []
                for _ in g:
                    got.append(ex.observe(pargs))
                    if len(got) > 200:
                        break
                want = [b for _, b in ex.model_matches(key, pat)]
                log.ev('query', route, ki, len(got))
                if want:
                    log.key(('query', route, key, tuple(pat), tuple(model.rows(key))))
                if got != want:
                    log.violation('wrong-answers', {'op': show_op(op), 'engine': [[TM.show(x) for x in r] for r in got[:6]],
                                                    'model': [[TM.show(x) for x in r] for r in want[:6]]})
                    break
            elif kind in ('deepfact', 'faultop'):
                from ..machine import deep_model_term, LowRecursionLimit
                ki = op[1] if kind == 'deepfact' else op[2]
                key = KEYS[ki]
                if key == busy:
                    log.ev('noop-busy')
                    continue
                log.count('cases')
                deep_row = [deep_model_term('list', 100)] + [('a', 'a')] * (key[1] - 1)
                if kind == 'deepfact':
                    yp.assert_fact(yp.atom(key[0]), [TM.build(yp, t, {}) for t in deep_row])
                    model.add(key, deep_row, False)
                    log.count('deep_fact_stored')
                    log.ev('deepfact', ki)
                else:
                    what = op[1]
                    pat = [TM.T(t) for t in op[3][:key[1]]]
                    raised = False
                    if what == 'assert':
                        eargs = [TM.build(yp, t, {}) for t in deep_row]
                        with LowRecursionLimit(60):
                            try:
                                yp.assert_fact(yp.atom(key[0]), eargs)
                            except RecursionError:
                                raised = True
                        if not raised:
                            model.add(key, deep_row, False)
                    else:
                        matches = ex.model_matches(key, pat) if not any(TM.size(r[0]) > 60 for r in model.rows(key) if r) else None
                        vmap = {}
                        pargs = [TM.build(yp, t, vmap) for t in pat]
                        term = yp.functor(key[0], pargs) if key[1] else yp.atom(key[0])
                        with LowRecursionLimit(60):
                            try:
                                g_ = yp.query('retractall', [term]) if what == 'retractall' else yp.query(key[0], pargs)
                                n_ = 0
                                for _ in g_:
                                    n_ += 1
                                    if n_ > 300:
                                        break
                            except RecursionError:
                                raised = True
                        g_ = None
                        if what == 'retractall' and not raised:
                            for rid, _ in (matches if matches is not None else ex.model_matches(key, pat)):
                                model.remove_id(key, rid)
                    log.count('fault_%s_%s' % (what, 'overflow' if raised else 'completed'))
                    log.ev('faultop', what, ki, raised)
                    log.key(('faultop', what, raised, key, tuple(TM.size(r[0]) > 60 for r in model.rows(key) if r)))
            elif kind == 'badgoal':
                _, bk, route, what = op
                if ex.task:
                    log.ev('noop-busy')
                    continue
                log.count('cases'); log.count('op_badgoal')
                bad = {'int': 123, 'unbound': yp.variable(), 'string': 'p(a)', 'atom-store-name': yp.functor('p', [yp.variable()])._args[0]}[what]
                outcome = 'ok'
                try:
                    g = yp.query(bk, [bad]) if route == 'query' else yp.query('w_%s' % bk, [bad])
                    n_ = 0
                    for _ in g:
                        n_ += 1
                        if n_ > 3:
                            break
                    outcome = 'answers:%d' % n_
                except Exception as e:
                    outcome = 'EXC'
                log.ev('badgoal', bk, route, what, outcome)
            elif kind == 'clear':
                log.count('cases'); log.count('op_clear')
                yp.clear()
                model.clear()
                ex.load_wrappers()
                if ex.task:
                    # the suspended retract has nothing left to remove: every fact it could still reach is gone
                    ex.task['todo'] = []
                    log.count('clear_while_retract_suspended')
                log.ev('clear')
        except TM.Cyclic:
            log.ev('skip-cyclic-pattern')
            continue
        except Exception as e:
            log.violation('raises', {'op': show_op(op if kind not in ('rstep', 'rend') or not ex.task else ex.task['op']), 'exception': type(e).__name__})
            break
        if ex.task:
            ex.task['steps_between'] += 1
        if (n + 1) % plan.get('readback_every', 1) and n != len(plan['ops']) - 1:
            log.count('ops_without_readback')
            continue
        try:
            diff = ex.readback()
        except Exception as e:
            log.violation('raises', {'op': 'read-back after ' + show_op(op), 'exception': type(e).__name__})
            break
        if diff:
            diff['after'] = show_op(op)
            log.violation('readback-differs', diff)
            break
    if ex.task:
        ex.task['task'].close()
        if ex.task['held']:
            ex.task['held'].close()
    return log.result()


def simplify(plan):
    ops = plan['ops']
    for k, op in enumerate(ops):
        alts = []
        if op[0] == 'assert':
            if op[2] != 'fact':
                alts.append(op[:2] + ['fact', 'inline'] + op[4:])
            if op[3] != 'inline':
                alts.append(op[:3] + ['inline'] + op[4:])
            if op[1]:
                alts.append([op[0], False] + op[2:])
        elif op[0] in ('retract', 'retractall', 'rstart'):
            if op[2] != 'inline':
                alts.append(op[:2] + ['inline'] + op[3:])
            if op[1] != 'query':
                alts.append([op[0], 'query', op[2] if op[1] == 'wrap' else 'inline'] + op[3:])
            if op[0] == 'retract' and op[5] is not None:
                alts.append(op[:5] + [None, op[6]])
        elif op[0] == 'query' and op[1] != 'api':
            alts.append([op[0], 'api'] + op[2:])
        for a in alts:
            c = dict(plan)
            c['ops'] = ops[:k] + [a] + ops[k + 1:]
            yield c
    yield from simplify_ops_terms(plan, {})
    for k, op in enumerate(ops):
        f = {'assert': 5, 'retract': 4, 'retractall': 4, 'rstart': 4, 'query': 3}.get(op[0])
        if f is None:
            continue
        for i, t in enumerate(op[f]):
            if t != ['a', 'a'] and t[0] != 'v':
                c = dict(plan)
                c['ops'] = ops[:k] + [op[:f] + [op[f][:i] + [['a', 'a']] + op[f][i + 1:]] + op[f + 1:]] + ops[k + 1:]
                yield c


def witness(plan, viol):
    return viol['class'] + ': ' + ' ; '.join(show_op(op) for op in plan['ops'])
