"""C03 - backtracking leaves no trace, however a query ends.  Sampled worlds x EVERY
abandonment point x {close, drop, throw} x every user-predicate raise point; variable
registry + per-query restore monitor + re-run equality (DESIGN.md section 4, C03)."""
import io, sys, random, contextlib
from .. import core, terms as TM, progs
from ..machine import GenTask
from ..seams import Sim, make_simyp

PROP = 'C03'
LEVEL = 'fault_enumeration'
CASES_ARE_COUNTED = True
TIERS = {'quick': {'runs': 7000, 'budget_s': 50}, 'thorough': {'runs': 600000, 'budget_s': 900}}
RULE = ('one run = one seeded world (layered program over fact/native predicates with cut, ;, ->, \\+, once, call/N, findall, =, \\=, '
        'member/append; query with fresh/shared/pre-bound variables). Per world the fault space is enumerated completely: every '
        'abandonment point k in 0..#answers x {close, drop, throw}, every native invocation j x {raise before first yield, raise on '
        'resumption}, and abandonment through evaluate_bounded (projection raising at answer k <= 4, own recursion limit of the caller 10 or 30 frames above it, query held or not); and raw unification generators over the query variables ended at k = 0 (never started) or k = 1 by close / drop / throw / exhaustion. A case = one fault placement; non-trivial = at least one registry variable was bound when the fault struck; '
        'distinct = hash of (rule text, fault kind, stack of live nested queries at the fault)')
ASSUMPTIONS = [
    'CPython 3.12 refcount finalisation (the statement says "closed or dropped"); cyclic GC is disabled during runs',
    'variable state is read through the public get_value only; compound terms through Functor._name/_args',
    'programs the compiler/loader rejects, worlds that build cyclic terms and worlds whose fault-free run exceeds the line budget are discarded (counted), never judged',
    'a run that ends in an exception raised by engine code itself is an outcome to be reproduced, not a verdict; if it leaves bindings the world is discarded',
    'side-effect-free programs only',
]
COMPONENTS = {'real': ['yldprolog.compiler pipeline', 'yldprolog.engine (YP subclass overriding only query() with a pass-through monitor)',
                       'generated clause code', 'CPython generators / refcount finalisation'],
              'stub': ['consumer (abandons at every k by close/drop/throw)', 'native predicates (harness generators with raise switches)'],
              'oracle': ['self-referential: registry snapshot equality, nested-query restore on the exhaustion path, re-run equality with the fault-free run']}
REQUIRED_PROBES = ('fault_twin_activation', 'fault_clear_while_suspended', 'fault_bystander_inner', 'fault_bystander_outer', 'fault_unify_k0', 'fault_unify_k1', 'fault_bounded_projection_raised', 'fault_close', 'fault_drop', 'fault_throw', 'fault_user_raise_fired', 'abandoned_with_bound_vars',
                   'abandoned_with_2plus_live_queries', 'worlds_with_prebinding')

ANSWER_CAP = 12
R1_LINE_BUDGET = 300000
MAX_RAISE_POINTS = 24


def gen(seed, tier):
    rng = random.Random(seed)
    world = progs.gen_world(rng, rich=rng.random() < 0.8, natives=True, max_depth=rng.choice((1, 2, 3, 3)))
    # raw unification generators over the query variables (and fresh ones): ended before their first answer (k = 0,
    # never started), after it (k = 1) or by exhaustion, by close / drop / throw
    pairs = []
    for _ in range(rng.randrange(1, 4)):
        t1 = ['v', rng.randrange(4)] if rng.random() < 0.6 else TM.J(_nostr(TM.rnd_term(rng, 4, 2, lists=rng.random() < 0.4)))
        t2 = TM.J(_nostr(TM.rnd_term(rng, 4, 2, lists=rng.random() < 0.4)))
        pairs.append([t1, t2] if rng.random() < 0.5 else [t2, t1])
    return {'world': world, 'faults': 'all', 'unify_pairs': pairs}


def _nostr(t):
    if t[0] == 's':
        return ('a', 'a')
    if t[0] == 'f':
        return ('f', t[1], tuple(_nostr(a) for a in t[2]))
    return t


def sample_view(plan):
    w = plan['world']
    return {'rules': w['rules'], 'native': w['native'], 'dynamic': w['dynamic'], 'query': w['query'], 'prebind': w['prebind'],
            'faults': plan['faults'], 'facts': {'%s/%d' % (n, a): len(rows) for n, a, rows in w['facts']}}


class Discard(Exception):
    pass


def build_engine(world, sim, yp_class, ctl, warmup=False, shadow=False):
    """compiles and loads the world into a fresh engine; returns (yp, qargs, qvars, held)"""
    from yldprolog.compiler import compile_prolog_from_string
    from yldprolog.engine import unify
    native_keys = {(n, a) for n, a, _, _ in world['native']}
    src = progs.world_source(world, without=set() if shadow else native_keys)
    for n, a, style, _ in world['native']:
        if style in ('delegate', 'delegate-bounded'):
            rows_ = [rows for n2, a2, rows in world['facts'] if (n2, a2) == (n, a)][0]
            if rows_:
                src += progs.fact_source(n + '_impl', rows_) + '\n'
    try:
        with contextlib.redirect_stderr(io.StringIO()):
            code = compile_prolog_from_string(src)
    except RecursionError:
        raise Discard('compile-recursion')
    except Exception:
        raise Discard('compile')
    yp = yp_class()
    try:
        yp.load_script_from_string(code, fn='<sim:world>')
    except Exception:
        raise Discard('load')
    rows_of = {(n, a): rows for n, a, rows in world['facts']}
    if warmup:
        # earlier history of this engine: the same names were registered before with functions that have no
        # solutions, and were called; registering the real ones afterwards must replace them completely
        dummy_ctl = {'calls': 0, 'fault': None, 'exc': None, 'args': [], 'live': 0}
        for n, a, style, yv in world['native']:
            f, ar = progs.make_native(yp, unify, [], a, style, yv, dummy_ctl)
            yp.register_function(n, f, arity=ar)
        for n, a, style, yv in world['native']:
            vs = [yp.variable() for _ in range(a)]
            try:
                for _ in yp.query(n, vs):
                    pass
            except Exception:
                pass
        wv = [yp.variable() for _ in world['query'][1]]
        try:
            k_ = 0
            for _ in yp.query(world['query'][0], wv):
                k_ += 1
                if k_ > 20:
                    break
        except Exception:
            pass
    for n, a, style, yv in world['native']:
        f, ar = progs.make_native(yp, unify, rows_of[(n, a)], a, style, yv, ctl, name=n)
        yp.register_function(n, f, arity=ar)
    if world.get('has_n'):
        f, ar = progs.make_native(yp, unify, [[['a', 'a']], [['a', 'c']], [['f', 'f', [['v', 0]]]]], 1, 'explicit', False, ctl)
        yp.register_function('n', f, arity=ar)
    for n, a, extra in world['dynamic']:
        for k in range(extra):
            if n == 'k':
                # dynamic facts that hold goals: ground compound terms, shared by every use of the fact
                yp.assert_fact(yp.atom(n), [yp.functor('s', [yp.atom('b')]) if k == 0 else yp.functor('q', [])])
            elif extra >= 20:
                # bulk: the first argument cycles through a, b, c (calls with a bound first argument match a third of them)
                yp.assert_fact(yp.atom(n), [yp.atom('abc'[k % 3])] + [yp.atom('dyn%d' % k) for j in range(a - 1)])
            else:
                # every other dynamic fact has a different atom in every position (q(V,V)-style calls must fail on it cleanly)
                yp.assert_fact(yp.atom(n), [yp.atom('dyn%d' % (k + (j if k % 2 == 0 else 0))) for j in range(a)])
    if world.get('exotic'):
        # plain Python constants as terms, also the falsy ones and ones equal to each other
        for n, a, extra in world['dynamic'][:2]:
            if n != 'k' and a >= 1:
                for c_ in (0, '', 1.0, False, None, 0.0):
                    yp.assert_fact(yp.atom(n), [c_] * a)
    qvars = {}
    qargs = [TM.build(yp, TM.T(t), qvars) for t in world['query'][1]]
    held = []
    for t1, t2 in world['prebind']:
        task = GenTask(unify(TM.build(yp, TM.T(t1), qvars), TM.build(yp, TM.T(t2), qvars)))
        if task.step():
            held.append(task)
    return yp, qargs, qvars, held


def observe_answer(sim, qargs):
    return TM.canon([TM.observe(a, sim.idx) for a in qargs])


def run_query(sim, yp, name, qargs, ctl, k, mode, fault, cap=ANSWER_CAP):
    """one execution of the query under one fault.  returns (answers, end, info)"""
    ctl['fault'] = fault
    ctl['calls'] = 0
    ctl['fired'] = 0
    ctl['exc'] = core.INJECTED[fault[2] if fault is not None and len(fault) > 2 else 'Exception']('injected')
    task = GenTask(yp.query(name, qargs))
    ans = []
    end = None
    info = {}
    try:
        while k is None or len(ans) < k:
            if not task.step():
                end = 'exhausted'
                break
            ans.append(observe_answer(sim, qargs))
            if k is None and len(ans) >= cap:
                end = 'cap'
                break
    except RecursionError:
        end = 'exc:RecursionError'
    except TM.TooDeep:
        task.close()
        raise
    except Exception as e:
        if e is ctl['exc']:
            end = 'boom'
        elif isinstance(e, tuple(core.INJECTED.values())):
            end = 'boom-other-object'
        else:
            end = 'exc:' + type(e).__name__
    if end is None or end == 'cap':
        info['live'] = tuple(sim.live)
        info['bound'] = sim.bound_count()
        if mode == 'drop':
            info['dead'] = task.drop()
            end = 'dropped'
        elif mode == 'throw':
            r = task.throw(core.Boom('thrown by consumer'))
            if r != 'back':
                task.close()
            end = 'thrown:' + (r if isinstance(r, str) else '/'.join(r))
        else:
            task.close()
            if task.not_closable:
                info['not_closable'] = True
            end = 'closed' if end is None else 'cap-closed'
    info['calls'] = ctl['calls']
    info['fired'] = ctl['fired']
    ctl['fault'] = None
    return ans, end, info


def run_bystander(sim, yp, name, qargs, ctl, k, mode, order, kind, log, qvars=None):
    """the query and an independent generator over variables of its own are suspended at the same time and do not
    end in LIFO order.  returns (answers of the query, end, info) or (None, None, None) after logging a violation"""
    from yldprolog.engine import unify
    from ..machine import end_task
    ctl['fault'] = None
    ctl['calls'] = 0
    ctl['fired'] = 0

    want_box = [[('a', 'z'), ('a', 'y')]]

    def start_bystander():
        if kind == 'shared':
            # a variable of the query's arguments that is unbound at the query's current answer gets bound by someone else
            from yldprolog.engine import Variable
            for v in (qvars or {}).values():
                w = v.get_value()
                if isinstance(w, Variable):
                    t = GenTask(unify(w, yp.atom('z')))
                    if not t.step():
                        raise Discard('bystander-has-no-answer')
                    want_box[0] = [('a', 'z')]
                    log.count('bystander_binds_variable_left_unbound_by_the_answer')
                    return t, (w,)
        z1, z2 = yp.variable(), yp.variable()
        if kind == 'unify':
            g = unify(yp.functor('bys', [z1, yp.atom('k'), yp.functor('w', [z2])]), yp.functor('bys', [yp.atom('z'), yp.atom('k'), yp.functor('w', [yp.atom('y')])]))
        else:
            g = yp.query('bys_fact', [z1, yp.functor('w', [z2])])
        t = GenTask(g)
        if not t.step():
            raise Discard('bystander-has-no-answer')
        return t, (z1, z2)
    # the per-query monitors assume LIFO nesting of everything that is alive (they compare the whole registry on a
    # query's exhaustion path), which is exactly what these cases do not have: they run unmonitored, like R0
    sim.monitor = False

    def bystander_state(zs):
        return [TM.observe(z, sim.idx) for z in zs]
    task = GenTask(yp.query(name, qargs))
    ans = []
    end = None
    info = {}
    try:
        if order == 'outer':
            bt, zs = start_bystander()
        while len(ans) < k:
            if not task.step():
                end = 'exhausted'
                break
            ans.append(observe_answer(sim, qargs))
            if order == 'inner' and len(ans) == (k if kind == 'shared' else 1):
                bt, zs = start_bystander()
        if order == 'inner' and not ans:
            bt, zs = start_bystander()
        info['live'] = tuple(sim.live)
        info['bound'] = sim.bound_count()
        if order == 'inner':
            # the query ends first (by `mode`, or by exhaustion if it already is exhausted)
            if end is None:
                if mode == 'resume':
                    n_ = 0
                    while task.step() and n_ < ANSWER_CAP:
                        n_ += 1
                    task.close()
                    end = 'resumed'
                else:
                    o = end_task(task, mode)
                    if o[0] == 'dropped':
                        info['dead'] = o[1]
                    end = 'bystander-' + mode
            want = want_box[0]
            if bystander_state(zs) != want:
                log.violation('other-generator-lost-its-bindings', {'fault': ['bystander', k, mode, order, kind], 'bystander_variables': [TM.show(x) for x in bystander_state(zs)],
                                                                    'expected': [TM.show(x) for x in want], 'note': 'ending the query changed variables it never touched'})
                bt.close()
                return None, None, None
            bt.close()
        else:
            # the generator that was started first ends while the query is suspended at its k-th answer
            before = observe_answer(sim, qargs) if ans and end is None else None
            if mode == 'resume':
                while bt.step():
                    pass
            else:
                end_task(bt, mode)
            if before is not None and observe_answer(sim, qargs) != before:
                log.violation('answer-bindings-lost-while-suspended', {'fault': ['bystander', k, mode, order, kind], 'answer_index': len(ans) - 1,
                                                                        'note': 'ending an independent generator changed the bindings of the suspended query'})
                task.close()
                return None, None, None
            if end is None:
                # the query goes on to exhaustion; its answers must be the fault-free ones
                while len(ans) < ANSWER_CAP:
                    if not task.step():
                        end = 'exhausted'
                        break
                    ans.append(observe_answer(sim, qargs))
                if end is None:
                    task.close()
                    end = 'cap-closed'
    except RecursionError:
        end = 'exc:RecursionError'
    except Discard:
        raise
    except Exception as e:
        end = 'exc:' + type(e).__name__
    finally:
        task = None
        sim.monitor = True
    info['calls'] = ctl['calls']
    info['fired'] = 0
    return ans, end, info


def _frame_depth():
    f = sys._getframe(1)
    n = 0
    while f is not None:
        n += 1
        f = f.f_back
    return n


def run_bounded(sim, yp, name, qargs, ctl, k, held, ambient):
    """abandonment through evaluate_bounded: the projection raises at the k-th answer while the caller's own
    recursion limit (`ambient` frames above the caller) is lower than the limit requested for the search.
    returns (answers projected before the raise, end, info)"""
    ctl['fault'] = None
    ctl['calls'] = 0
    ctl['fired'] = 0
    exc = core.Boom('projection')
    ans = []

    def proj(x):
        if len(ans) == k:
            raise exc
        ans.append(observe_answer(sim, qargs))
        return len(ans)
    out = {}
    old = sys.getrecursionlimit()
    base = _frame_depth()
    q = yp.query(name, qargs)
    holder = [q] if held else []
    try:
        sys.setrecursionlimit(base + ambient)
        try:
            if held:
                del q
                yp.evaluate_bounded(holder[0], proj, recursion_limit=base + 600)
            else:
                q2, q = q, None
                yp.evaluate_bounded(q2, proj, recursion_limit=base + 600)
                del q2
            out['end'] = 'returned'
        except core.Boom as e:
            out['end'] = 'boom' if e is exc else 'boom-other-object'
        except RecursionError:
            out['end'] = 'exc:RecursionError'
        except Exception as e:
            out['end'] = 'exc:' + type(e).__name__
        out['limit_after'] = sys.getrecursionlimit() - (base + ambient)
    finally:
        sys.setrecursionlimit(old)
    exc = None
    info = {'calls': ctl['calls'], 'fired': 0, 'limit_delta': out.get('limit_after'), 'held': bool(holder)}
    return ans, out['end'], info, holder


def execute(plan):
    log = core.Log(keep=plan.get('_keep', False))
    world = plan['world']
    sim = Sim()
    sim.install_registry()
    ctl = {'calls': 0, 'fault': None, 'exc': None, 'args': [], 'live': 0}
    try:
        yp, qargs, qvars, held = build_engine(world, sim, make_simyp(sim), ctl)
    except Discard as d:
        return log.result(discard=str(d))
    name = world['query'][0]
    if held:
        log.count('worlds_with_prebinding')
    yp.assert_fact(yp.atom('bys_fact'), [yp.atom('z'), yp.functor('w', [yp.atom('y')])])
    yp.assert_fact(yp.atom('bys_fact'), [yp.atom('z2'), yp.functor('w', [yp.atom('y2')])])
    base = sim.snapshot()
    base_bound = sim.bound_count()
    shape = core.short_hash(world['rules'])

    def check_after(tag, ans, end, info, r1):
        """the oracles (a)-(e) after one run; returns True if a violation was logged"""
        nested = sim.nested_violations[:]
        del sim.nested_violations[:]
        if sim.cyclic:
            raise Discard('cyclic-term')
        if end.startswith('exc:'):
            # engine's own exception: an outcome, not a verdict; but the world is unusable if it left bindings
            if not sim.restored(base) or nested:
                raise Discard('engine-exception-left-bindings')
            return False
        if nested:
            log.violation('nested-restore', {'fault': tag, 'query': '%s/%d' % (nested[0][0], nested[0][1]), 'difference': nested[0][2]})
            return True
        if not sim.restored(base):
            log.violation('binding-not-restored', {'fault': tag, 'end': end, 'difference': sim.first_difference(base),
                                                   'unraisable': sim.unraisable[:3]})
            return True
        if info.get('dead') is False:
            log.violation('not-finalised-on-drop', {'fault': tag})
            return True
        if info.get('not_closable'):
            log.violation('query-cannot-be-closed', {'fault': tag, 'note': 'the object returned by YP.query has no close()'})
            return True
        if ctl['live'] != 0:
            log.violation('native-generator-left-suspended', {'fault': tag, 'live': ctl['live']})
            return True
        if r1 is not None and ans != r1[0][:len(ans)]:
            log.violation('rerun-differs', {'fault': tag, 'answer_index': next(i for i, (x, y) in enumerate(zip(ans, r1[0] + [None] * len(ans))) if x != y)})
            return True
        return False

    try:
        # R1: the fault-free run, under the line budget (cyclic terms can make one next() run forever)
        try:
            with core.LineBudget(plan.get('r1_line_budget', R1_LINE_BUDGET), {sys.modules['yldprolog.engine'].__file__}) as lb:
                r1 = run_query(sim, yp, name, qargs, ctl, None, 'exhaust', None)
            log.lines += lb.count
        except core.BudgetExceeded:
            return log.result(discard='r1-line-budget')
        ncalls = r1[2]['calls']
        log.ev('R1', len(r1[0]), r1[1], ncalls, core.short_hash(r1[0]))
        log.count('r1_end_' + r1[1].split(':')[0])
        if check_after(['R1'], r1[0], r1[1], r1[2], None):
            return log.result()
        # R0: the same run with the per-query monitors switched off.  The monitors only *read* variables
        # through the public get_value; an engine in which reading is not side-effect free (caches, path
        # compression) could be "healed" - or broken - by them, so both runs must give the same answers.
        sim.monitor = False
        r0 = run_query(sim, yp, name, qargs, ctl, None, 'exhaust', None)
        sim.monitor = True
        log.ev('R0', len(r0[0]), r0[1], core.short_hash(r0[0]))
        if check_after(['R0-unmonitored'], r0[0], r0[1], r0[2], None):
            return log.result()
        if (r0[0], r0[1]) != (r1[0], r1[1]):
            log.violation('rerun-differs', {'fault': ['R0-unmonitored'], 'end': r0[1], 'expected_end': r1[1], 'answers': len(r0[0]), 'expected_answers': len(r1[0]),
                                            'note': 'the run differs when nested queries are not observed in between: reading variables changes the answers'})
            return log.result()
        n = len(r1[0])
        clear_fault = None
        qshape = world['query'][1]
        fresh_shape = all(t[0] == 'v' for t in qshape) and not held

        def fresh_run():
            """the same query over fresh variables (same sharing pattern), enumerated to the end; canonical answers"""
            fv = {}
            fargs = [TM.build(yp, TM.T(t), fv) for t in qshape]
            out_, end_ = [], 'exhausted'
            g_ = GenTask(yp.query(name, fargs))
            try:
                while g_.step():
                    out_.append(TM.observe_canon(fargs))
                    if len(out_) >= ANSWER_CAP:
                        g_.close()
                        end_ = 'cap-closed'
                        break
            except RecursionError:
                end_ = 'exc:RecursionError'
            except Exception as e:
                end_ = 'exc:' + type(e).__name__
            return out_, end_
        fresh_ref = None
        if fresh_shape:
            sim.monitor = False
            try:
                fresh_ref = fresh_run()
            finally:
                sim.monitor = True
        if plan['faults'] == 'all':
            faults = [['abandon', k, mode] for k in range(n + 1) for mode in ('close', 'drop', 'throw')]
            faults += [['raise', j, ph, core.INJECTED_KINDS[(j + i) % 4]] for j in range(1, min(ncalls, MAX_RAISE_POINTS) + 1) for i, ph in enumerate(('pre', 'resume'))]
            # abandonment through evaluate_bounded (the projection raises at answer k) with the caller's own limit
            # 10 / 30 frames above its depth, i.e. far below the limit requested for the search
            faults += [['bounded', k, (10, 30)[(k + i) % 2], bool((k + i) % 2)] for k in range(min(n, 4) + 1) for i in range(2)]
            faults += [['unify', pi, k, mode] for pi in range(len(plan.get('unify_pairs', []))) for k in (0, 1) for mode in ('close', 'drop', 'throw', 'resume')]
            # a second, independent generator (over variables of its own) is suspended at its answer while the query
            # ends ('inner': it was started after the query, the query ends first - not LIFO), or is itself ended
            # while the query is suspended at its k-th answer ('outer': it was started before the query)
            faults += [['bystander', k, ('close', 'drop', 'throw', 'resume')[(k + i) % 4], ('inner', 'outer')[i], ('unify', 'fact')[(k + i // 2) % 2]]
                       for k in range(min(n, 3) + 1) for i in range(2)]
            # ... and one that binds a variable of the query's own arguments which the query's current answer leaves unbound
            faults += [['bystander', k, ('close', 'drop', 'resume', 'throw')[k % 4], 'inner', 'shared'] for k in range(1, min(n, 3) + 1)]
            # ... and a second activation of the very same query (fresh variables) run from start to end while the first is
            # suspended at its k-th answer: clause-local and anonymous variables are per activation
            if fresh_shape:
                faults += [['twin', k] for k in range(1, min(n, 3) + 1)]
            # last of all: clear() while the query is suspended at its k-th answer (the engine forgets its program; the
            # answer's bindings are the consumer's), then the query is ended
            clear_fault = ['clear', min(n, 2), ('close', 'drop', 'resume')[n % 3]]
        else:
            faults = plan['faults']
        for fault in faults:
            log.count('cases')
            if fault[0] == 'twin':
                k = min(fault[1], n)
                task = GenTask(yp.query(name, qargs))
                got1 = []
                while len(got1) < k and task.step():
                    got1.append(observe_answer(sim, qargs))
                sim.monitor = False
                try:
                    r2 = fresh_run()
                finally:
                    sim.monitor = True
                still = observe_answer(sim, qargs) if len(got1) == k and k else None
                task.close()
                log.count('fault_twin_activation')
                log.ev('F', 'twin', k, len(r2[0]), r2[1], core.short_hash(r2[0]))
                if r2[1].startswith('exc:') or fresh_ref[1].startswith('exc:'):
                    continue
                if r2 != fresh_ref:
                    log.violation('second-activation-differs', {'fault': fault, 'answers': len(r2[0]), 'alone': len(fresh_ref[0]), 'end': r2[1], 'end_alone': fresh_ref[1],
                                                                'note': 'the same query over fresh variables, run while the first was suspended at its answer %d' % k})
                    return log.result()
                if still is not None and still != got1[-1]:
                    log.violation('answer-bindings-lost-while-suspended', {'fault': fault, 'answer_index': k - 1})
                    return log.result()
                if check_after(fault, got1, 'closed', {'calls': 0, 'fired': 0}, r1):
                    return log.result()
                continue
            if fault[0] == 'clear':
                clear_fault = fault
                continue
            if fault[0] == 'abandon':
                k, mode = min(fault[1], n), fault[2]
                # a drop is judged on exactly the object YP.query returned (no monitor wrapper around it)
                sim.monitor = mode != 'drop'
                try:
                    ans, end, info = run_query(sim, yp, name, qargs, ctl, k, mode, None)
                finally:
                    sim.monitor = True
                log.count('fault_' + mode)
                if info.get('bound', 0) > base_bound:
                    log.count('abandoned_with_bound_vars')
                    log.key((shape, mode, info.get('live')))
                if len(info.get('live', ())) >= 3:
                    log.count('abandoned_with_2plus_live_queries')
            elif fault[0] == 'unify':
                # a raw unification generator: made, optionally advanced to its answer, then ended
                from yldprolog.engine import unify as _unify
                pair = plan['unify_pairs'][fault[1] % len(plan['unify_pairs'])]
                try:
                    if TM.munify_any_order_cyclic(TM.T(pair[0]), TM.T(pair[1]), {}):
                        log.ev('skip-cyclic')
                        continue
                except Exception:
                    continue
                ut = GenTask(_unify(TM.build(yp, TM.T(pair[0]), qvars), TM.build(yp, TM.T(pair[1]), qvars)))
                yielded = False
                if fault[2] >= 1:
                    yielded = ut.step()
                info = {'calls': 0, 'fired': 0}
                if not ut.done:
                    from ..machine import end_task
                    outc = end_task(ut, fault[3])
                    if outc[0] == 'dropped':
                        info['dead'] = outc[1]
                ut = None
                ans, end = [], 'unify-%s-k%d' % (fault[3], fault[2])
                log.count('fault_unify_k%d' % fault[2])
                if yielded:
                    log.key((shape, 'unify', fault[3], fault[2], core.short_hash(pair)))
            elif fault[0] == 'bystander':
                ans, end, info = run_bystander(sim, yp, name, qargs, ctl, min(fault[1], n), fault[2], fault[3], fault[4], log, qvars)
                if ans is None:
                    return log.result()
                log.count('fault_bystander_' + fault[3])
                if info.get('bound', 0) > base_bound:
                    log.key((shape, 'bystander', fault[2], fault[3], fault[4], info.get('live')))
            elif fault[0] == 'bounded':
                ans, end, info, holder = run_bounded(sim, yp, name, qargs, ctl, min(fault[1], n), fault[3], fault[2])
                log.count('fault_bounded')
                if end == 'boom':
                    log.count('fault_bounded_projection_raised')
                    log.key((shape, 'bounded', fault[2], fault[3], len(ans)))
                # the caller has handled and released the exception; it may still hold the query
            else:
                ans, end, info = run_query(sim, yp, name, qargs, ctl, None, 'exhaust', (fault[1], fault[2], fault[3] if len(fault) > 3 else 'Exception'))
                log.count('fault_user_raise')
                if info['fired']:
                    log.count('fault_user_raise_fired')
                    log.count('user_raise_end_' + end.split(':')[0])
                    log.key((shape, 'raise', fault[2], len(ans)))
            log.ev('F', fault[0], fault[1], fault[2], end, len(ans), core.short_hash(ans))
            if check_after(fault, ans, end, info, r1):
                return log.result()
            holder = None
            if fault[0] == 'raise' and not info['fired'] and (ans, end) != (r1[0], r1[1]):
                log.violation('rerun-differs', {'fault': fault, 'end': end, 'expected_end': r1[1]})
                return log.result()
        rl = run_query(sim, yp, name, qargs, ctl, None, 'exhaust', None)
        log.ev('RL', len(rl[0]), rl[1], core.short_hash(rl[0]))
        if check_after(['R_last'], rl[0], rl[1], rl[2], r1):
            return log.result()
        if (rl[0], rl[1]) != (r1[0], r1[1]):
            log.violation('rerun-differs', {'fault': ['R_last'], 'end': rl[1], 'expected_end': r1[1], 'answers': len(rl[0]), 'expected_answers': len(r1[0])})
            return log.result()
        if clear_fault is not None:
            log.count('cases')
            k = min(clear_fault[1], n)
            task = GenTask(yp.query(name, qargs))
            got1 = []
            while len(got1) < k and task.step():
                got1.append(observe_answer(sim, qargs))
            before = observe_answer(sim, qargs)
            yp.clear()
            after = observe_answer(sim, qargs)
            log.count('fault_clear_while_suspended')
            log.ev('F', 'clear', k, clear_fault[2])
            if after != before:
                log.violation('clear-changed-bindings', {'fault': clear_fault, 'answer_index': len(got1) - 1})
                return log.result()
            from ..machine import end_task
            try:
                end_task(task, clear_fault[2])
            except Exception as e:
                log.ev('clear-end', type(e).__name__)
            task = None
            del sim.nested_violations[:]
            if not sim.restored(base):
                log.violation('binding-not-restored', {'fault': clear_fault, 'end': clear_fault[2], 'difference': sim.first_difference(base)})
                return log.result()
        if sim.unraisable:
            log.count('unraisable_in_finalisers', len(sim.unraisable))
        log.count('max_live_queries_%d' % min(sim.max_live, 6))
    except Discard as d:
        return log.result(discard=str(d))
    except (TM.TooDeep, RecursionError):
        # a cyclic term built by `=` without occurs check (unspecified behaviour): observing it
        # through get_value cannot terminate
        return log.result(discard='cyclic-term')
    finally:
        for t in reversed(held):
            t.close()
    return log.result()


def narrow(plan, viol):
    f = viol['detail'].get('fault')
    if f and f[0] in ('abandon', 'raise', 'bounded', 'unify', 'bystander', 'twin', 'clear'):
        c = dict(plan)
        c['faults'] = [f]
        return c
    if f and f[0] in ('R1', 'R_last', 'R0-unmonitored'):
        c = dict(plan)
        c['faults'] = []
        return c
    return None


def simplify(plan):
    w = plan['world']

    def with_world(**kw):
        c = dict(plan)
        c['world'] = dict(w, **kw)
        return c
    for k in range(len(w['rules'])):
        yield with_world(rules=w['rules'][:k] + w['rules'][k + 1:])
    for k in range(len(w['native'])):
        yield with_world(native=w['native'][:k] + w['native'][k + 1:])
    if w['dynamic']:
        yield with_world(dynamic=[])
    if w['prebind']:
        yield with_world(prebind=[])
    if w.get('has_n'):
        yield with_world(has_n=False)
    for k, (n, a, rows) in enumerate(w['facts']):
        for r in range(len(rows)):
            yield with_world(facts=w['facts'][:k] + [[n, a, rows[:r] + rows[r + 1:]]] + w['facts'][k + 1:])
    q = w['query']
    for i, t in enumerate(q[1]):
        if t != ['v', i]:
            yield with_world(query=[q[0], q[1][:i] + [['v', i]] + q[1][i + 1:]])
    # simplify rule bodies: drop one conjunct at top level
    for k, r in enumerate(w['rules']):
        if ' :- ' in r:
            head, body = r[:-1].split(' :- ', 1)
            parts = split_top(body)
            if len(parts) > 1:
                for i in range(len(parts)):
                    yield with_world(rules=w['rules'][:k] + [head + ' :- ' + ', '.join(parts[:i] + parts[i + 1:]) + '.'] + w['rules'][k + 1:])


def split_top(body):
    parts, depth, cur = [], 0, ''
    for ch in body:
        if ch in '([':
            depth += 1
        elif ch in ')]':
            depth -= 1
        if ch == ',' and depth == 0:
            parts.append(cur.strip())
            cur = ''
        else:
            cur += ch
    parts.append(cur.strip())
    return parts


def witness(plan, viol):
    w = plan['world']
    return '%s: %s | native=%s | fault=%s' % (viol['class'], ' '.join(w['rules']), [x[0] for x in w['native']], viol['detail'].get('fault'))


def prewarm():
    progs.prewarm_compiler()
