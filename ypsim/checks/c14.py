"""C14 - changing a predicate while it is being enumerated (logical update view).
Seeded interleavings of suspended enumerations (query / retract, at any position)
with mutations of the same predicate, against a snapshot model; bounded liveness of
the two update idioms by line budget (DESIGN.md section 4, C14)."""
import io, random, contextlib
from .. import core, terms as TM
from ..machine import GenTask, end_task
from ..models import FactStore

PROP = 'C14'
LEVEL = 'exploration'
CASES_ARE_COUNTED = True
TIERS = {'quick': {'runs': 16000, 'budget_s': 45}, 'thorough': {'runs': 1200000, 'budget_s': 900}}
RULE = ('one run = one seeded interleaving (<= 30 events) on one engine of up to 3 simultaneously suspended enumerations (query or retract over '
        'p/1, c/1, p/2, tok/0; ground facts, in 30% of the runs also facts with variables; 8% of the runs start with 60-150 facts on one predicate; ground, partial and variable patterns) with mutations of the same predicates between any two of their '
        'steps (asserta, assertz, retract-first-then-close, retractall, clear, and the compiled idioms drain = "p(X), retract(p(X)), fail" and '
        'upd = "retract(c(N)), assertz(c(s(N))), fail" under a line budget); half of the mutations are aimed at the record just visited or about '
        'to be visited by a suspended enumeration. A case = one event compared with the snapshot model + read-back of all predicates; '
        'non-trivial = the event is a step of an enumeration whose predicate was mutated since it started, or a mutation while an enumeration '
        'of that predicate is suspended; distinct = hash of (event kind, enumeration kind and pattern, cursor position, the snapshot it walks, the store as it is now)')
ASSUMPTIONS = [
    'a goal starts at its first next() (generator bodies run lazily); the model snapshots then',
    'facts are ground, except in the 30% of runs where the arity-1 predicates may hold facts with fact-local variables (then no idioms are run); every enumeration has its own pattern variables',
    'the update idioms must finish within 20000 executed engine/generated lines (they need < 1500 on a correct engine)',
]
COMPONENTS = {'real': ['yldprolog.engine fact store, match_dynamic, retract/retractall/asserta/assertz builtins, clear', 'compiled idiom clauses (real compiler output)'],
              'stub': ['scheduler of the suspended enumerations and of the mutations between their steps'],
              'oracle': ['logical-update-view model: enumerations walk the records present at their start; retract skips records no longer stored; store = all asserts and removals applied']}
REQUIRED_PROBES = ('goal_created_started_later', 'fault_assert_overflow', 'fault_retractall_overflow', 'deep_fact_stored', 'guarded_scan_started', 'step_in_large_enumeration', 'nonground_fact_answered', 'step_after_mutation', 'mutation_under_suspended_enum', 'mutation_adjacent_to_cursor', 'retract_enum_skipped_removed',
                   'query_enum_visited_removed', 'two_enums_same_predicate', 'idiom_drain', 'idiom_upd', 'clear_under_suspended_enum')

KEYS = [('p', 1), ('c', 1), ('p', 2), ('tok', 0)]
VALS = [['a', 'a'], ['a', 'b'], ['a', 'c'], ['a', 'd'], ['i', 0], ['i', 1]]       # (the last two: plain Python constants)
NONGROUND = [['v', 0], ['f', 'f', [['v', 0]]], ['f', 'g', [['a', 'a'], ['v', 0]]], ['f', 'f', [['a', 'b']]]]
IDIOM_LINE_BUDGET = 20000
_IDIOMS = None

# `G, fail` crashes the pinned code generator (a C11 defect outside this check), so the
# failure-driven loops end in a call of an undefined predicate, which simply fails.
IDIOM_SRC = '''
drain :- p(X), retract(p(X)), never_defined(X).
drain.
upd :- retract(c(N)), assertz(c(s(N))), never_defined(N).
upd.
drain2 :- p(X,Y), retract(p(X,Y)), never_defined(X).
drain2.
addwhile :- p(X), assertz(p(X)), never_defined(X).
addwhile.
gscan(X) :- p(X), c(a).
addone(X) :- p(X), assertz(p(X)).
faddwhile :- findall(X, addone(X), _).
dropone(X) :- p(X), retract(p(X)).
fdrain :- findall(X, dropone(X), _).
'''


def prewarm():
    global _IDIOMS
    if _IDIOMS is None:
        from yldprolog.compiler import compile_prolog_from_string
        with contextlib.redirect_stderr(io.StringIO()):
            _IDIOMS = compile_prolog_from_string(IDIOM_SRC)


class ModelSim:
    """the snapshot model, also used by the plan generator to aim mutations"""

    def __init__(self):
        self.store = FactStore()
        self.enums = []      # dict(kind, key, pat, snap, pos, mutated)

    def matches(self, pat, row):
        try:
            return self.store.match(pat, row, {}) is not None
        except TM.Cyclic:
            return False

    def start(self, kind, key, pat, lazy=False):
        # lazy: the goal has only been created; it starts (and takes its view of the facts) at its first next()
        e = {'kind': kind, 'key': key, 'pat': pat, 'snap': None if lazy else self.store.snapshot(key), 'pos': 0, 'mutated': False, 'skipped': 0, 'visited_removed': 0}
        self.enums.append(e)
        return e

    def next(self, e):
        """returns the row answered next (after applying a retract's removal) or None"""
        if e['snap'] is None:
            e['snap'] = self.store.snapshot(e['key'])
            e['mutated'] = False
        if e['kind'] == 'g' and e.get('inner'):
            # the guard c(a) of the current p fact has further solutions (several c(a) facts): same answer again
            e['inner'] -= 1
            return e['inner_row']
        while e['pos'] < len(e['snap']):
            rid, row = e['snap'][e['pos']]
            e['pos'] += 1
            if not self.matches(e['pat'], row):
                continue
            present = self.store.has_id(e['key'], rid)
            if e['kind'] == 'g':
                # compiled `gscan(X) :- p(X), c(a).`: the guard is a goal of its own, started anew for every fact of
                # p that is visited, so it sees the c/1 facts as they are at that moment
                n = sum(1 for r in self.store.rows(('c', 1)) if self.matches([('a', 'a')], r))
                if not n:
                    continue
                e['inner'] = n - 1          # the guard enumerates the c/1 facts as they are now, whatever happens later
                e['inner_row'] = row
                return row
            if e['kind'] == 'r':
                if not present:
                    e['skipped'] += 1
                    continue
                self.store.remove_id(e['key'], rid)
                self.touch(e['key'], e)
            elif not present:
                e['visited_removed'] += 1
            return row
        return None

    def touch(self, key, but=None):
        for e in self.enums:
            if e['key'] == key and e is not but:
                e['mutated'] = True

    def add(self, key, row, front):
        self.store.add(key, row, front)
        self.touch(key)

    def retract_first(self, key, pat):
        for rid, row in self.store.snapshot(key):
            if self.matches(pat, row):
                self.store.remove_id(key, rid)
                self.touch(key)
                return row
        return None

    def retractall(self, key, pat):
        n = 0
        for rid, row in self.store.snapshot(key):
            if self.matches(pat, row):
                self.store.remove_id(key, rid)
                n += 1
        if n:
            self.touch(key)
        return n

    def clear(self):
        for k in list(self.store.lists):
            if self.store.lists[k]:
                self.touch(k)
        self.store.clear()

    def idiom(self, name):
        if name in ('drain', 'drain2', 'fdrain'):
            key = ('p', 2) if name == 'drain2' else ('p', 1)
            for rid, row in self.store.snapshot(key):
                # retract(p(Row)) with ground Row: removes every stored record equal to Row, one per backtrack
                for rid2, row2 in self.store.snapshot(key):
                    if row2 == row and self.store.has_id(key, rid2):
                        self.store.remove_id(key, rid2)
            self.touch(key)
        elif name == 'upd':
            key = ('c', 1)
            for rid, row in self.store.snapshot(key):
                if self.store.has_id(key, rid):
                    self.store.remove_id(key, rid)
                    self.store.add(key, (('f', 's', (row[0],)),), False)
            self.touch(key)
        elif name in ('addwhile', 'faddwhile'):
            key = ('p', 1)
            for rid, row in self.store.snapshot(key):
                self.store.add(key, row, False)
            self.touch(key)


def deep_row(key):
    from ..machine import deep_model_term
    return ([deep_model_term('list', 100)] + [('a', 'a')] * (key[1] - 1)) if key[1] else []


def is_deep(row):
    return bool(row) and TM.size(row[0]) > 60


def gen_pat(rng, ar):
    return [rng.choice(VALS if rng.random() < 0.3 else VALS[:4]) if rng.random() < 0.35 else ['v', rng.randrange(2)] for _ in range(ar)]


def gen(seed, tier):
    rng = random.Random(seed)
    m = ModelSim()
    ops = []
    keys = rng.choice(([0], [0], [1], [0, 1], [2], [0, 1, 2], [3], [0, 3]))
    nvals = rng.choice((2, 3, 4, 6, 6))
    p_idiom = rng.choice((0.0, 0.03, 0.08))
    nonground = rng.random() < 0.3
    depth_faults = rng.random() < 0.2        # runs with deep facts and operations that overflow the stack (no idioms: their line budget is for small terms)
    if depth_faults:
        p_idiom = 0.0
    if nonground:
        # facts of the arity-1 predicates may contain (fact-local) variables; each enumeration has its own
        # pattern variables, so answers of simultaneously suspended enumerations must be independent
        keys = [k for k in keys if KEYS[k][1] == 1] or [0]
        p_idiom = 0.0

    def row_for(ki):
        if nonground and rng.random() < 0.5:
            return [rng.choice(NONGROUND)]
        return [rng.choice(VALS[:nvals]) for _ in range(KEYS[ki][1])]
    if rng.random() < 0.08:
        # bulk mode: size-dependent paths (chunked copies, indexes) only exist above some size
        ki = rng.choice(keys)
        n = rng.randrange(60, 150)
        p_idiom = 0.0          # the idioms' line budget is calibrated for small stores
        ops.append(['bulk', ki, n, nvals])
        for i in range(n):
            m.add(KEYS[ki], [TM.T(VALS[(i * 7 + j) % nvals]) for j in range(KEYS[ki][1])], False)
        kind = rng.choice('qr')
        pat = [['v', j] for j in range(KEYS[ki][1])]
        ops.append(['start', kind, ki, pat])
        e = m.start(kind, KEYS[ki], [TM.T(t) for t in pat])
        m.next(e)
        k1 = rng.randrange(0, n)
        ops.append(['stepn', 0, k1])
        for _ in range(k1):
            if m.next(e) is None:
                e['done'] = True
                break
    for _ in range(rng.randrange(3, 31 * (2 if tier == 'thorough' else 1))):
        k = rng.random()
        ki = rng.choice(keys)
        key = KEYS[ki]
        live = [e for e in m.enums if not e.get('done')]
        if k < 0.28 or (k < 0.5 and not m.store.rows(key)):
            row = row_for(ki)
            front = rng.random() < 0.35
            ops.append(['assert', front, ki, row])
            m.add(key, [TM.T(t) for t in row], front)
        elif k < 0.43 and len(live) < 3:
            kind = rng.choice('qr')
            if key == ('p', 1) and 1 in keys and rng.random() < 0.3:
                kind = 'g'
            pat = gen_pat(rng, key[1])
            if rng.random() < 0.2:
                # the goal is only created now and started by a later step (whatever happens in between)
                ops.append(['start', kind, ki, pat, 'lazy'])
                m.start(kind, key, [TM.T(t) for t in pat], lazy=True)
            else:
                ops.append(['start', kind, ki, pat])
                e = m.start(kind, key, [TM.T(t) for t in pat])
                if m.next(e) is None:
                    e['done'] = True
        elif k < 0.68 and live:
            i = rng.randrange(len(live))
            if len(live[i]['snap'] or []) > 40 and rng.random() < 0.5:
                nsteps = rng.randrange(2, 90)
                ops.append(['stepn', i, nsteps])
                for _ in range(nsteps):
                    if m.next(live[i]) is None:
                        live[i]['done'] = True
                        break
            else:
                ops.append(['step', i])
                if m.next(live[i]) is None:
                    live[i]['done'] = True
        elif k < 0.73 and live:
            i = rng.randrange(len(live))
            ops.append(['end', i, rng.choice(('close', 'drop', 'throw'))])
            live[i]['done'] = True
        elif k < 0.93:
            # a removal; half of them aimed at a record next to the cursor of a suspended enumeration
            aimed = [e for e in live if e['snap']]
            pat = None
            if aimed and rng.random() < 0.5:
                e = rng.choice(aimed)
                pos = min(max(e['pos'] + rng.choice((-1, 0, 0, 1)), 0), len(e['snap']) - 1)
                ki = KEYS.index(e['key'])
                key = e['key']
                pat = [TM.J(x) for x in e['snap'][pos][1]]
                aimed_flag = True
            else:
                pat = gen_pat(rng, key[1])
                aimed_flag = False
            if rng.random() < 0.7:
                ops.append(['retract1', ki, pat, aimed_flag])
                m.retract_first(key, [TM.T(t) for t in pat])
            else:
                ops.append(['retractall', ki, pat, aimed_flag])
                m.retractall(key, [TM.T(t) for t in pat])
        elif k < 0.93 + p_idiom:
            name = rng.choice(('drain', 'upd', 'drain2', 'addwhile', 'faddwhile', 'fdrain'))
            ops.append(['idiom', name])
            m.idiom(name)
        elif k < (0.88 if depth_faults else 0.985):
            row = row_for(ki)
            ops.append(['assert', rng.random() < 0.5, ki, row])
            m.add(key, [TM.T(t) for t in row], ops[-1][1])
        elif k < 0.985:
            # depth faults: an operation is attempted with 60 frames of stack left and overflows (handled by the caller)
            if rng.random() < 0.4:
                ops.append(['deepfact', ki])
                m.add(key, deep_row(key), False)
            else:
                what = rng.choice(('assert', 'assert', 'retractall', 'query'))
                pat = gen_pat(rng, key[1])
                ops.append(['faultop', what, ki, pat])
                if what == 'retractall' and not any(is_deep(r) for r in m.store.rows(key)):
                    m.retractall(key, [TM.T(t) for t in pat])
                if what == 'assert' and rng.random() < 0.6:
                    # the typical continuation: an ordinary assert on the same predicate right after the one that overflowed
                    row = row_for(ki)
                    ops.append(['assert', False, ki, row])
                    m.add(key, [TM.T(t) for t in row], False)
        else:
            ops.append(['clear'])
            m.clear()
    # the read-back after an op is itself an enumeration of every predicate; in a third of the runs it is done only
    # now and then (and at the end), so that nothing "heals" the engine between two operations
    return {'ops': ops, 'readback_every': rng.choice((1, 1, 4)) if not depth_faults else rng.choice((1, 4, 1000))}


def show_goal(ki, pat):
    name, ar = KEYS[ki]
    return '%s(%s)' % (name, ','.join(TM.show(TM.T(t)) for t in pat[:ar])) if ar else name


def show_op(op):
    if op[0] == 'assert':
        return '%s %s' % ('asserta' if op[1] else 'assertz', show_goal(op[2], op[3]))
    if op[0] == 'start':
        return '%s-%s %s' % ('create' if len(op) > 4 and op[4] == 'lazy' else 'start', {'q': 'query', 'r': 'retract', 'g': 'guarded-scan (p(X), c(a))'}[op[1]], show_goal(op[2], op[3]))
    if op[0] == 'deepfact':
        return 'assertz %s(<100-element list>%s)' % (KEYS[op[1]][0], ',a' * (KEYS[op[1]][1] - 1))
    if op[0] == 'faultop':
        return 'FAULT %s %s with 60 frames of stack left (handled)' % (op[1], ('%s(<100-element list>...)' % KEYS[op[2]][0]) if op[1] == 'assert' else show_goal(op[2], op[3]))
    if op[0] == 'bulk':
        return 'assertz %d facts on %s/%d' % (op[2], KEYS[op[1]][0], KEYS[op[1]][1])
    if op[0] in ('retract1', 'retractall'):
        return '%s %s' % ('retract-first' if op[0] == 'retract1' else 'retractall', show_goal(op[1], op[2]))
    return ' '.join(str(x) for x in op)


def sample_view(plan):
    return [show_op(op) for op in plan['ops']]


def execute(plan):
    from yldprolog.engine import YP
    prewarm()
    log = core.Log(keep=plan.get('_keep', False))
    yp = YP()
    yp.load_script_from_string(_IDIOMS, fn='<sim:idioms>')
    m = ModelSim()
    live = []      # dict(model enum, task, pargs)

    def observe(pargs):
        return TM.observe_canon(pargs)

    def readback():
        for name, ar in KEYS:
            vs = [yp.variable() for _ in range(ar)]
            got = []
            for _ in yp.query(name, vs):
                got.append(observe(vs))
                if len(got) > 300:
                    break
            want = [TM.canon(row) for row in m.store.rows((name, ar))]
            if got != want:
                return {'predicate': '%s/%d' % (name, ar), 'engine': [[TM.show(x) for x in r] for r in got[:10]],
                        'model': [[TM.show(x) for x in r] for r in want[:10]]}
        return None

    def expected_answer(e, row):
        if row is None:
            return None
        s = m.store.match(e['pat'], row, {})
        return TM.canon([TM.resolve(p, s) for p in e['pat']])

    def do_step(entry, tag):
        e = entry['e']
        if e['mutated']:
            log.count('step_after_mutation')
        before = (e['skipped'], e['visited_removed'])
        row = m.next(e)
        want = expected_answer(e, row)
        if row is not None and not all(TM.is_ground(x) for x in row):
            log.count('nonground_fact_answered')
        ok = entry['task'].step()
        got = observe(entry['pargs']) if ok else None
        if e['skipped'] > before[0]:
            log.count('retract_enum_skipped_removed')
        if e['visited_removed'] > before[1]:
            log.count('query_enum_visited_removed')
        if e['mutated']:
            log.key((tag, e['kind'], tuple(e['pat']), e['pos'], tuple(r for _, r in (e['snap'] or [])[:40]), tuple(m.store.rows(e['key'])[:40])))
        log.ev(tag, e['kind'], ok, None if got is None else tuple(TM.show(x) for x in got))
        if got != want:
            log.violation('enumeration-differs', {'enumeration': {'q': 'query ', 'r': 'retract ', 'g': 'guarded scan gscan(X) :- p(X), c(a). over '}[e['kind']] + show_goal(KEYS.index(e['key']), [TM.J(p) for p in e['pat']]),
                                                  'step': entry['steps'] + 1, 'engine': None if got is None else [TM.show(x) for x in got],
                                                  'model': None if want is None else [TM.show(x) for x in want]})
            return False
        entry['steps'] += 1
        if e['kind'] != 'g' and entry['steps'] > len(e['snap']) + 1:
            log.violation('enumeration-longer-than-snapshot', {'steps': entry['steps'], 'snapshot': len(e['snap'])})
            return False
        if not ok:
            live.remove(entry)
        return True

    nops = 0
    for op in plan['ops']:
        kind = op[0]
        try:
            if kind == 'assert':
                _, front, ki, row = op
                key = KEYS[ki]
                row = row[:key[1]]
                log.count('cases')
                under = [x for x in live if x['e']['key'] == key]
                if under:
                    log.count('mutation_under_suspended_enum')
                    log.key(('assert', front, tuple(row), tuple((x['e']['kind'], x['e']['pos'], len(x['e']['snap'] or [])) for x in under), tuple(m.store.rows(key)[:40])))
                term = yp.functor(key[0], [TM.build(yp, TM.T(t), {}) for t in row]) if key[1] else yp.atom(key[0])
                n = sum(1 for _ in yp.query('asserta' if front else 'assertz', [term]))
                m.add(key, [TM.T(t) for t in row], front)
                log.ev('assert', front, ki, n)
            elif kind == 'start':
                _, k2, ki, pat = op[:4]
                lazy = len(op) > 4 and op[4] == 'lazy'
                if len(live) >= 3:
                    log.ev('noop')
                    continue
                key = KEYS[ki]
                pat = [TM.T(t) for t in pat[:key[1]]]
                log.count('cases')
                if any(x['e']['key'] == key for x in live):
                    log.count('two_enums_same_predicate')
                vmap = {}
                pargs = [TM.build(yp, t, vmap) for t in pat]
                if k2 == 'g':
                    log.count('guarded_scan_started')
                g = (yp.query(key[0], pargs) if k2 == 'q' else yp.query('gscan', pargs) if k2 == 'g' else yp.query('retract', [yp.functor(key[0], pargs) if key[1] else yp.atom(key[0])]))
                entry = {'e': m.start(k2, key, pat, lazy), 'task': GenTask(g), 'pargs': pargs, 'steps': 0}
                live.append(entry)
                if lazy:
                    log.count('goal_created_started_later')
                    log.ev('create', k2, ki)
                elif not do_step(entry, 'start'):
                    break
            elif kind == 'step':
                if not live:
                    log.ev('noop')
                    continue
                log.count('cases')
                if not do_step(live[op[1] % len(live)], 'step'):
                    break
            elif kind == 'stepn':
                if not live:
                    log.ev('noop')
                    continue
                entry = live[op[1] % len(live)]
                ok_all = True
                for _ in range(op[2]):
                    if entry not in live:
                        break
                    log.count('cases')
                    if len(entry['e']['snap'] or []) > 64:
                        log.count('step_in_large_enumeration')
                    if not do_step(entry, 'step'):
                        ok_all = False
                        break
                if not ok_all:
                    break
            elif kind == 'deepfact':
                key = KEYS[op[1]]
                log.count('cases')
                row = deep_row(key)
                yp.assert_fact(yp.atom(key[0]), [TM.build(yp, t, {}) for t in row])
                m.add(key, row, False)
                log.count('deep_fact_stored')
                log.ev('deepfact', op[1])
            elif kind == 'faultop':
                from ..machine import LowRecursionLimit
                _, what, ki, pat = op
                key = KEYS[ki]
                pat = [TM.T(t) for t in pat[:key[1]]]
                log.count('cases')
                under = [x for x in live if x['e']['key'] == key]
                if under:
                    log.count('fault_under_suspended_enum')
                raised = False
                if what == 'assert':
                    eargs = [TM.build(yp, t, {}) for t in deep_row(key)]
                    with LowRecursionLimit(60):
                        try:
                            yp.assert_fact(yp.atom(key[0]), eargs)
                        except RecursionError:
                            raised = True
                    if not raised:
                        m.add(key, deep_row(key), False)
                else:
                    vmap = {}
                    pargs = [TM.build(yp, t, vmap) for t in pat]
                    with LowRecursionLimit(60):
                        try:
                            g_ = yp.query('retractall', [yp.functor(key[0], pargs) if key[1] else yp.atom(key[0])]) if what == 'retractall' else yp.query(key[0], pargs)
                            n_ = 0
                            for _ in g_:
                                n_ += 1
                                if n_ > 300:
                                    break
                        except RecursionError:
                            raised = True
                    g_ = None
                    if what == 'retractall' and not raised:
                        m.retractall(key, pat)
                log.count('fault_%s_%s' % (what, 'overflow' if raised else 'completed'))
                log.ev('faultop', what, ki, raised)
                log.key(('faultop', what, raised, len(under), tuple(is_deep(r) for r in m.store.rows(key))))
            elif kind == 'bulk':
                _, ki, n, nv_ = op
                key = KEYS[ki]
                log.count('cases')
                log.count('bulk_loads')
                for i in range(n):
                    row = [VALS[(i * 7 + j) % nv_] for j in range(key[1])]
                    yp.assert_fact(yp.atom(key[0]), [TM.build(yp, TM.T(t), {}) for t in row])
                    m.add(key, [TM.T(t) for t in row], False)
                log.ev('bulk', ki, n)
            elif kind == 'end':
                if not live:
                    log.ev('noop')
                    continue
                entry = live.pop(op[1] % len(live))
                end_task(entry['task'], op[2])
                log.ev('end', op[2])
            elif kind in ('retract1', 'retractall'):
                _, ki, pat, aimed = op
                key = KEYS[ki]
                pat = [TM.T(t) for t in pat[:key[1]]]
                log.count('cases')
                under = [x for x in live if x['e']['key'] == key]
                if under:
                    log.count('mutation_under_suspended_enum')
                    if aimed:
                        log.count('mutation_adjacent_to_cursor')
                    log.key((kind, tuple(pat), tuple((x['e']['kind'], x['e']['pos'], len(x['e']['snap'] or [])) for x in under), tuple(m.store.rows(key)[:40])))
                vmap = {}
                pargs = [TM.build(yp, t, vmap) for t in pat]
                term = yp.functor(key[0], pargs) if key[1] else yp.atom(key[0])
                if kind == 'retract1':
                    t = GenTask(yp.query('retract', [term]))
                    ok = t.step()
                    got = observe(pargs) if ok else None
                    t.close()
                    row = m.retract_first(key, pat)
                    want = None
                    if row is not None:
                        s = m.store.match(pat, row, {})
                        want = TM.canon([TM.resolve(p, s) for p in pat])
                    log.ev('retract1', ki, ok)
                    if got != want:
                        log.violation('retract-differs', {'op': show_op(op), 'engine': None if got is None else [TM.show(x) for x in got],
                                                          'model': None if want is None else [TM.show(x) for x in want]})
                        break
                else:
                    n = sum(1 for _ in yp.query('retractall', [term]))
                    m.retractall(key, pat)
                    log.ev('retractall', ki, n)
            elif kind == 'idiom':
                log.count('cases')
                log.count('idiom_' + op[1])
                if live:
                    log.count('mutation_under_suspended_enum')
                # the loops are quadratic in the number of equal facts (every retract(p(X)) with X bound scans the list), so
                # the budget grows with the store: far above what a correct engine needs, finite for a loop that never ends
                n_facts = sum(len(m.store.rows(k_)) for k_ in (('p', 1), ('p', 2), ('c', 1)))
                budget_ = IDIOM_LINE_BUDGET + 80 * n_facts * n_facts
                m.idiom(op[1])
                try:
                    with core.LineBudget(budget_) as lb:
                        n = sum(1 for _ in yp.query(op[1], []))
                    log.lines += lb.count
                except core.BudgetExceeded:
                    log.violation('update-loop-does-not-terminate', {'idiom': op[1], 'line_budget': budget_, 'facts_before': n_facts})
                    break
                log.ev('idiom', op[1], n)
                log.key(('idiom', op[1], len(live), tuple(m.store.rows(('p', 1))[:20]), tuple(m.store.rows(('c', 1))[:20])))
            elif kind == 'clear':
                log.count('cases')
                if live:
                    log.count('clear_under_suspended_enum')
                yp.clear()
                yp.load_script_from_string(_IDIOMS, fn='<sim:idioms>')
                m.clear()
                log.ev('clear')
        except Exception as e:
            log.violation('raises', {'op': show_op(op), 'exception': type(e).__name__})
            break
        nops += 1
        if nops % plan.get('readback_every', 1) and nops != len(plan['ops']):
            log.count('readback_skipped')
            continue
        try:
            diff = readback()
        except Exception as e:
            log.violation('raises', {'op': 'read-back after ' + show_op(op), 'exception': type(e).__name__})
            break
        if diff:
            diff['after'] = show_op(op)
            log.violation('store-differs', diff)
            break
    for entry in live:
        entry['task'].close()
    if not log.violations and plan.get('readback_every', 1) > 1:
        try:
            diff = readback()
        except Exception as e:
            diff = None
            log.violation('raises', {'op': 'final read-back', 'exception': type(e).__name__})
        if diff:
            diff['after'] = 'the whole history (final read-back)'
            log.violation('store-differs', diff)
    return log.result()


def simplify(plan):
    ops = plan['ops']
    for k, op in enumerate(ops):
        f = {'assert': 3, 'start': 3, 'retract1': 2, 'retractall': 2}.get(op[0])
        if f is None:
            continue
        for i, t in enumerate(op[f]):
            if t != ['a', 'a'] and t[0] != 'v':
                c = dict(plan)
                c['ops'] = ops[:k] + [op[:f] + [op[f][:i] + [['a', 'a']] + op[f][i + 1:]] + op[f + 1:]] + ops[k + 1:]
                yield c
        if op[0] == 'assert' and op[1]:
            c = dict(plan)
            c['ops'] = ops[:k] + [[op[0], False] + op[2:]] + ops[k + 1:]
            yield c
        if op[0] == 'retractall':
            c = dict(plan)
            c['ops'] = ops[:k] + [['retract1'] + op[1:]] + ops[k + 1:]
            yield c


def witness(plan, viol):
    return viol['class'] + ': ' + ' ; '.join(show_op(op) for op in plan['ops'])
