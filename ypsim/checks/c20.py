"""C20 - Python predicates are interchangeable with compiled ones.  Twin engines (all
compiled vs. a seeded subset of fact predicates re-implemented as registered generator
functions) driven by the same consumer schedule incl. abandonment; an injected raise in
the native predicate must reach the consumer as the same object (DESIGN.md section 4, C20)."""
import random, sys
from .. import core, terms as TM, progs
from ..seams import Sim, make_simyp
from . import c03

PROP = 'C20'
LEVEL = 'exploration'
CASES_ARE_COUNTED = True
TIERS = {'quick': {'runs': 6000, 'budget_s': 45}, 'thorough': {'runs': 400000, 'budget_s': 900}}
RULE = ('one run = one seeded world (program generator of C03: cut, ;, ->, \\+, once, call/N, findall, member/append) built twice: engine A with '
        'every fact predicate compiled, engine B with a seeded non-empty subset of them supplied as registered generator functions (fresh '
        'variables per invocation, registration style inferred / explicit / variadic, yield value True / False), a seeded subset also having '
        'identical dynamic facts in both. Both engines get the same consumer schedule: full enumeration, abandonment after every k by close and '
        'by drop, re-run; then on B every native invocation j x {raise before first yield, raise on resumption}, the first 6 of them also with the query consumed through evaluate_bounded; in 30% of the runs finally clear() on both engines, the query, the all-compiled script loaded into both, the query again. A case = one twin comparison or '
        'one injected raise; non-trivial = at least one native invocation happened in it; distinct = hash of (rule text, native set and styles, '
        'schedule step, number of native invocations)')
ASSUMPTIONS = [
    'differential oracle: engine A is the model for engine B; defects common to both cancel out and cannot raise an alarm',
    'native predicates follow the documented protocol (unify arguments, yield once per solution, fresh variables per invocation)',
    'worlds that do not compile, build cyclic terms or exceed the line budget are discarded (counted)',
]
COMPONENTS = {'real': ['yldprolog.compiler', 'yldprolog.engine query/register_function/match_dynamic, module-level unify/get_value', 'generated clause code'],
              'stub': ['consumer schedule (enumerate / close / drop / re-run)', 'native predicates built from the fact tables, with raise switches'],
              'oracle': ['twin engine A (all compiled) under the same schedule; identity of the injected exception object; argument types seen by the natives']}
REQUIRED_PROBES = ('twin_through_evaluate_bounded', 'natives_registered_over_script_definitions', 'raise_fired_under_evaluate_bounded', 'clear_phase', 'late_script_appended_to_native', 'engine_with_earlier_registrations', 'style_decorated', 'style_delegate', 'twin_comparisons', 'native_invocations', 'style_inferred', 'style_explicit', 'style_variadic', 'yield_true', 'yield_false',
                   'raise_fired', 'raise_arrived_same_object', 'native_next_to_dynamic_facts', 'abandon_close', 'abandon_drop')
TERM_TYPES = {'Atom', 'Variable', 'Functor', 'int', 'str', 'float', 'NoneType', 'bool'}


def gen(seed, tier):
    rng = random.Random(seed)
    world = progs.gen_world(rng, rich=rng.random() < 0.8, natives=True, max_depth=rng.choice((1, 2, 3)))
    world['prebind'] = []
    keys = [(n, a) for n, a, rows in world['facts']]
    # prefer predicates the rules actually call, so that the natives take part in the search
    import re
    text = ' '.join(world['rules'])
    called = [(n, a) for n, a in keys if re.search(r'\b%s\(' % n, text) or (a == 0 and re.search(r'\b%s\b' % n, text))]
    world['native'] = [x for x in world['native'] if (x[0], x[1]) in called or rng.random() < 0.3]
    for (n, a) in called:
        if rng.random() < 0.5 and not any(x[0] == n and x[1] == a for x in world['native']):
            world['native'].append([n, a, rng.choice(['inferred', 'explicit', 'variadic', 'decorated', 'prebuilt', 'explicit-varargs', 'delegate', 'delegate-bounded', 'partial', 'bound-method', 'callable-object', 'prebuilt-foreign']), rng.random() < 0.5])
    if not world['native']:
        n, a = rng.choice(called or keys)
        world['native'] = [[n, a, rng.choice(['inferred', 'explicit', 'variadic', 'decorated', 'prebuilt', 'explicit-varargs', 'delegate', 'delegate-bounded', 'partial', 'bound-method', 'callable-object', 'prebuilt-foreign']), rng.random() < 0.5]]
    if world.get('has_n'):
        # the native-only predicate of C03 gets a compiled twin here
        world['facts'] = world['facts'] + [['n', 1, [[['a', 'a']], [['a', 'c']], [['f', 'f', [['v', 0]]]]]]]
        world['native'] = world['native'] + [['n', 1, rng.choice(['inferred', 'explicit', 'variadic', 'decorated', 'prebuilt', 'explicit-varargs', 'delegate', 'delegate-bounded', 'partial', 'bound-method', 'callable-object', 'prebuilt-foreign']), rng.random() < 0.5]]
        world['has_n'] = False
    if rng.random() < 0.5:
        # natives "next to dynamic facts": make sure some native predicate also has dynamic facts
        n, a = world['native'][0][:2]
        if not any(d[0] == n and d[1] == a for d in world['dynamic']):
            world['dynamic'] = world['dynamic'] + [[n, a, rng.randrange(1, 3)]]
    if rng.random() < 0.4:
        # a compiled predicate whose name starts with a native's name plus '_' (the engine keeps definitions under
        # name_arity keys), called by an extra clause of the top predicate
        n_, a_ = rng.choice(world['native'])[:2]
        sib = '%s_%s' % (n_, rng.choice(('of', 'n', '1', 'x_2')))
        idx = max([i for i, r in enumerate(world['rules']) if r.startswith('p(')] or [len(world['rules']) - 1])
        world['rules'] = world['rules'][:idx + 1] + ['p(X,Y) :- %s(X,Y).' % sib, '%s(sib,b).' % sib, '%s(a,sib).' % sib] + world['rules'][idx + 1:]
        world['sibling'] = sib
    late = None
    if rng.random() < 0.35:
        # a second script, loaded WITHOUT overwrite into both engines after everything else, that adds clauses to one
        # of the natively supplied predicates: the native definition must stay first in the chain
        # (not for a variadic registration: an exact-arity definition from a script rightly takes precedence over it)
        cands = [x for x in world['native'] if x[2] != 'variadic']
        if cands:
            n, a = cands[0][:2]
            late = [n, a, [[['a', 'late%d' % j]] + [['a', 'x']] * (a - 1) if a else [] for j in range(rng.randrange(1, 3))]]
    return {'world': world, 'faults': 'all', 'warmup': rng.random() < 0.4, 'late': late, 'clear_phase': rng.random() < 0.3, 'shadow': rng.random() < 0.25}


sample_view = c03.sample_view


def execute(plan):
    log = core.Log(keep=plan.get('_keep', False))
    world = plan['world']
    sim = Sim()
    sim.install_registry()
    sim.monitor = False
    ctlA = {'calls': 0, 'fault': None, 'exc': None, 'args': [], 'live': 0}
    ctlB = {'calls': 0, 'fault': None, 'exc': None, 'args': [], 'live': 0}
    worldA = dict(world, native=[])
    try:
        ypA, qargsA, _, _ = c03.build_engine(worldA, sim, make_simyp(sim), ctlA)
        # with 'warmup' engine B has a history: the predicates were first supplied by other Python functions (no
        # solutions, same registration style) and called, before the real ones were registered
        ypB, qargsB, _, _ = c03.build_engine(world, sim, make_simyp(sim), ctlB, warmup=plan.get('warmup'), shadow=plan.get('shadow'))
    except c03.Discard as d:
        return log.result(discard=str(d))
    if plan.get('warmup'):
        log.count('engine_with_earlier_registrations')
    if plan.get('shadow'):
        # engine B loaded the all-compiled script first; the registrations replace those definitions
        log.count('natives_registered_over_script_definitions')
    if plan.get('late'):
        from yldprolog.compiler import compile_prolog_from_string
        n_, a_, rows_ = plan['late']
        try:
            import io, contextlib
            with contextlib.redirect_stderr(io.StringIO()):
                code_ = compile_prolog_from_string(progs.fact_source(n_, rows_) + '\n')
            ypA.load_script_from_string(code_, fn='<sim:late>', overwrite=False)
            ypB.load_script_from_string(code_, fn='<sim:late>', overwrite=False)
            log.count('late_script_appended_to_native')
        except Exception:
            return log.result(discard='late-script')
    name = world['query'][0]
    shape = core.short_hash((world['rules'], world['native']))
    for n_, a_, style, yv in world['native']:
        log.count('style_' + style)
        log.count('yield_true' if yv else 'yield_false')
        if any(d[0] == n_ and d[1] == a_ for d in world['dynamic']):
            log.count('native_next_to_dynamic_facts')

    def clean():
        return sim.bound_count() == 0

    def twin(k, mode, tag):
        ra = c03.run_query(sim, ypA, name, qargsA, ctlA, k, mode, None)
        ca = clean()
        rb = c03.run_query(sim, ypB, name, qargsB, ctlB, k, mode, None)
        cb = clean()
        log.count('cases')
        log.count('twin_comparisons')
        calls = rb[2]['calls']
        log.count('native_invocations', calls)
        if calls:
            log.key((shape, tag, min(calls, 6)))
        bad_types = sorted({t for call in ctlB['args'] for t in call} - TERM_TYPES)
        del ctlB['args'][:]
        log.ev('twin', tag, ra[1], len(ra[0]), rb[1], len(rb[0]), core.short_hash(ra[0]), core.short_hash(rb[0]))
        if 'exc:RecursionError' in (ra[1], rb[1]):
            # a cyclic term (built by unification without occurs check): unspecified behaviour, and the order in
            # which a fact's arguments are unified may legitimately decide whether the cycle is ever walked
            raise c03.Discard('cyclic-term')
        if bad_types:
            log.violation('native-argument-not-a-term', {'step': tag, 'types': bad_types})
            return None
        if (ra[0], ra[1]) != (rb[0], rb[1]) or ca != cb or ra[2].get('dead') != rb[2].get('dead'):
            idx = next((i for i, (x, y) in enumerate(zip(ra[0] + [None], rb[0] + [None])) if x != y), None)
            log.violation('twin-differs', {'step': tag, 'compiled': {'answers': len(ra[0]), 'end': ra[1], 'all_unbound_after': ca},
                                           'with_natives': {'answers': len(rb[0]), 'end': rb[1], 'all_unbound_after': cb},
                                           'first_differing_answer': idx,
                                           'compiled_answer': None if idx is None or idx >= len(ra[0]) else [TM.show(x) for x in ra[0][idx]],
                                           'native_answer': None if idx is None or idx >= len(rb[0]) else [TM.show(x) for x in rb[0][idx]]})
            return None
        return ra, rb

    try:
        try:
            with core.LineBudget(c03.R1_LINE_BUDGET, {sys.modules['yldprolog.engine'].__file__}) as lb:
                r = twin(None, 'exhaust', ['R1'])
            log.lines += lb.count
        except core.BudgetExceeded:
            return log.result(discard='r1-line-budget')
        if r is None:
            return log.result()
        ra, rb = r
        if ra[1].startswith('exc:'):
            log.count('r1_engine_exception_both_sides')
        n = len(ra[0])
        ncalls = rb[2]['calls']
        faults = plan['faults']
        if faults == 'all':
            faults = [['abandon', k, mode] for k in range(n + 1) for mode in ('close', 'drop')]
            faults += [['raise', j, ph, core.INJECTED_KINDS[(j + i) % 4]] for j in range(1, min(ncalls, c03.MAX_RAISE_POINTS) + 1) for i, ph in enumerate(('pre', 'resume'))]
            # the same with the query consumed through evaluate_bounded (which absorbs RuntimeError, and only that)
            faults += [['raise-bounded', j, ('pre', 'resume')[j % 2], core.INJECTED_KINDS[j % 4]] for j in range(1, min(ncalls, 6) + 1)]
        for fault in faults:
            if fault[0] in ('clear', 'bounded-twin'):
                continue
            if fault[0] == 'abandon':
                log.count('abandon_' + fault[2])
                if twin(min(fault[1], n), fault[2], fault) is None:
                    return log.result()
            elif fault[0] == 'raise-bounded':
                log.count('cases')
                ctlB['fault'] = (fault[1], fault[2])
                ctlB['calls'] = 0
                ctlB['fired'] = 0
                ctlB['exc'] = core.INJECTED[fault[3]]('injected')
                ans = []

                class StopProj(Exception):
                    pass

                def proj(_):
                    if len(ans) >= c03.ANSWER_CAP:
                        raise StopProj()
                    ans.append(c03.observe_answer(sim, qargsB))
                    return len(ans)
                try:
                    ypB.evaluate_bounded(ypB.query(name, qargsB), proj, recursion_limit=sys.getrecursionlimit())
                    end = 'returned'
                except RecursionError:
                    end = 'exc:RecursionError'
                except StopProj:
                    end = 'cap'
                except Exception as e:
                    end = 'boom' if e is ctlB['exc'] else 'exc:' + type(e).__name__
                fired = ctlB['fired']
                ctlB['fault'] = None
                del ctlB['args'][:]
                log.ev('raise-bounded', fault[1], fault[2], fault[3], end, len(ans), fired)
                if fired:
                    log.count('raise_fired_under_evaluate_bounded')
                    absorbed = isinstance(ctlB['exc'], RuntimeError)
                    if end != 'cap' and ((end != 'returned') if absorbed else (end != 'boom')):
                        log.violation('native-exception-changed', {'fault': fault, 'arrived_as': end, 'answers_before': len(ans),
                                                                   'note': 'consumed through evaluate_bounded, which absorbs RuntimeError and nothing else'})
                        return log.result()
                    if ans != ra[0][:len(ans)]:
                        log.violation('answers-before-exception-differ', {'fault': fault, 'answers_before': len(ans)})
                        return log.result()
                    log.key((shape, 'raise-bounded', fault[2], fault[3], len(ans)))
                ctlB['exc'] = None
                if not clean() and not end.startswith('exc:'):
                    log.violation('bindings-left-after-native-exception', {'fault': fault})
                    return log.result()
            else:
                log.count('cases')
                ans, end, info = c03.run_query(sim, ypB, name, qargsB, ctlB, None, 'exhaust', (fault[1], fault[2], fault[3] if len(fault) > 3 else 'Exception'))
                exc_same = end == 'boom'
                del ctlB['args'][:]
                log.ev('raise', fault[1], fault[2], end, len(ans), info['fired'])
                if info['fired']:
                    log.count('raise_fired')
                    log.key((shape, 'raise', fault[2], fault[3] if len(fault) > 3 else 'Exception', len(ans)))
                    log.count('raise_kind_' + (fault[3] if len(fault) > 3 else 'Exception'))
                    if not exc_same:
                        log.violation('native-exception-changed', {'fault': fault, 'arrived_as': end, 'answers_before': len(ans)})
                        return log.result()
                    log.count('raise_arrived_same_object')
                    if ans != ra[0][:len(ans)]:
                        log.violation('answers-before-exception-differ', {'fault': fault, 'answers_before': len(ans)})
                        return log.result()
                elif (ans, end) != (ra[0], ra[1]):
                    log.violation('twin-differs', {'step': fault, 'note': 'the fault did not fire, yet the run differs from the compiled engine',
                                                   'compiled': {'answers': len(ra[0]), 'end': ra[1]}, 'with_natives': {'answers': len(ans), 'end': end}})
                    return log.result()
                if not clean() and not end.startswith('exc:'):
                    log.violation('bindings-left-after-native-exception', {'fault': fault})
                    return log.result()
        if plan['faults'] in ('all', [['bounded-twin']]):
            # both engines consumed through evaluate_bounded (a native of the 'delegate-bounded' style makes a bounded
            # call of its own from inside): same answers, and the interpreter's recursion limit is what it was
            lim0 = sys.getrecursionlimit()
            outs = []
            for yp_, qa_ in ((ypA, qargsA), (ypB, qargsB)):
                seen_ = []

                class StopProj2(Exception):
                    pass

                def proj_(_, qa_=qa_, seen_=seen_):
                    if len(seen_) >= c03.ANSWER_CAP:
                        raise StopProj2()
                    seen_.append(c03.observe_answer(sim, qa_))
                try:
                    yp_.evaluate_bounded(yp_.query(name, qa_), proj_, recursion_limit=lim0 - 1000)
                    end_ = 'returned'
                except StopProj2:
                    end_ = 'cap'
                except RecursionError:
                    end_ = 'exc:RecursionError'
                except Exception as e:
                    end_ = 'exc:' + type(e).__name__
                outs.append((seen_, end_, sys.getrecursionlimit()))
                sys.setrecursionlimit(lim0)
            del ctlB['args'][:]
            log.count('cases'); log.count('twin_through_evaluate_bounded')
            log.ev('bounded-twin', outs[0][1], len(outs[0][0]), outs[1][1], len(outs[1][0]))
            if 'exc:RecursionError' in (outs[0][1], outs[1][1]):
                raise c03.Discard('cyclic-term')
            if outs[0][2] != lim0 or outs[1][2] != lim0:
                log.violation('recursion-limit-changed', {'step': ['bounded-twin'], 'before': lim0, 'after_compiled': outs[0][2], 'after_with_natives': outs[1][2]})
                return log.result()
            if outs[0][:2] != outs[1][:2]:
                log.violation('twin-differs', {'step': ['bounded-twin'], 'compiled': {'answers': len(outs[0][0]), 'end': outs[0][1]}, 'with_natives': {'answers': len(outs[1][0]), 'end': outs[1][1]}})
                return log.result()
        if plan['faults'] == 'all' and twin(None, 'exhaust', ['R_last']) is None:
            return log.result()
        if (plan.get('clear_phase') and plan['faults'] == 'all') or plan['faults'] == [['clear']]:
            # clear() on both: whatever was compiled and whatever was registered is gone alike; then the same
            # all-compiled script is loaded into both, without overwrite
            ypA.clear()
            ypB.clear()
            log.count('clear_phase')
            if twin(None, 'exhaust', ['clear']) is None:
                return log.result()
            from yldprolog.compiler import compile_prolog_from_string
            import io, contextlib
            try:
                with contextlib.redirect_stderr(io.StringIO()):
                    code_ = compile_prolog_from_string(progs.world_source(worldA))
            except Exception:
                raise c03.Discard('compile')
            ypA.load_script_from_string(code_, fn='<sim:world2>', overwrite=False)
            ypB.load_script_from_string(code_, fn='<sim:world2>', overwrite=False)
            if twin(None, 'exhaust', ['clear', 'reload']) is None:
                return log.result()
    except c03.Discard as d:
        return log.result(discard=str(d))
    except (TM.TooDeep, RecursionError):
        return log.result(discard='cyclic-term')
    return log.result()


def narrow(plan, viol):
    f = viol['detail'].get('fault') or viol['detail'].get('step')
    c = dict(plan)
    if f and f[0] in ('abandon', 'raise', 'raise-bounded'):
        c['faults'] = [f]
    elif f and f[0] == 'clear':
        c['faults'] = [['clear']]
    elif f and f[0] == 'bounded-twin':
        c['faults'] = [['bounded-twin']]
    elif f and f[0] == 'R1':
        c['faults'] = []
    else:
        return None
    return c


simplify = c03.simplify


def witness(plan, viol):
    w = plan['world']
    return '%s: %s | native=%s | step=%s' % (viol['class'], ' '.join(w['rules']), [x[:3] for x in w['native']],
                                              viol['detail'].get('fault') or viol['detail'].get('step'))


def prewarm():
    progs.prewarm_compiler()
