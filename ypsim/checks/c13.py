"""C13 - a stored fact is an independent copy of the asserted term.  Binding-stack
machine + fact store: assert under generated binding histories, later unbind/rebind,
several simultaneously suspended uses of one fact; copy-semantics model
(DESIGN.md section 4, C13)."""
import io, random, contextlib
from .. import core, terms as TM
from ..machine import GenTask, Pool, end_task, simplify_ops_terms
from ..models import FactStore

PROP = 'C13'
LEVEL = 'exploration'
CASES_ARE_COUNTED = True
TIERS = {'quick': {'runs': 16000, 'budget_s': 45}, 'thorough': {'runs': 1200000, 'budget_s': 900}}
RULE = ('one run = one seeded history on one engine over a LIFO stack of frames, each an open unification (PUSH) or a suspended use of the fact '
        'predicate p/1, p/2 (USE + STEP), plus up to three independent uses (query or retract with own variables only) stepped in any order, with ASSERT(term over pool variables; routes assert_fact / query(assertz) / compiled wrapper with the goal '
        'in a bound variable / compiled inline goal) at any point, so that facts are asserted with variables bound before, after, through chains and '
        'inside structures, and are used while other uses of the same fact are suspended. A case = one answer (or end) of a use compared with the '
        'copy-semantics model over the pattern AND every pool variable; non-trivial = the fact answered contains a variable, or was asserted while '
        'one of its variables was bound, or another use is suspended; distinct = hash of (stored fact up to renaming, pattern up to renaming, #suspended uses, '
        'bound-at-assert, bindings changed since assert, answer number)')
ASSUMPTIONS = [
    'a use starts at its first next(); the model takes its view of the fact list then',
    'frames end in LIFO order (the engine\'s bindings nest; un-nesting them is outside every property)',
    'matches whose unifier would be cyclic are unspecified: the run ends there without a verdict',
]
COMPONENTS = {'real': ['yldprolog.engine assert_fact/Answer/match_dynamic/assertz/asserta builtins, unify', 'compiled wrapper clauses'],
              'stub': ['scheduler holding the open unifications and suspended uses'],
              'oracle': ['copy-semantics model: ASSERT stores resolve(term, current substitution) with remaining variables made fact-local; every USE renames the fact apart']}
REQUIRED_PROBES = ('store_prefilled_with_many_facts', 'fault_assert_overflow', 'fault_use_aborted', 'independent_use_stepped_while_others_suspended', 'assert_with_bound_variable', 'assert_with_unbound_variable', 'assert_bound_inside_structure', 'use_answer', 'use_while_other_use_suspended',
                   'use_after_binding_changed', 'nonground_fact_answered', 'route_fact', 'route_query', 'route_wrapv', 'route_inline', 'equal_constants_of_different_types_stored', 'assert_compiled_with_anonymous_variable')

_WRAP = None
WRAP_SRC = '''
wv_assertz(T) :- G = T, assertz(G).
wv_asserta(T) :- G = T, asserta(G).
ia1(A) :- assertz(p(A)).
ia2(A,B) :- assertz(p(A,B)).
ib1(A) :- X = f(A), assertz(p(X)).
ic1(A) :- assertz(p(g(A,_))).
'''


def prewarm():
    global _WRAP
    if _WRAP is None:
        from yldprolog.compiler import compile_prolog_from_string
        with contextlib.redirect_stderr(io.StringIO()):
            _WRAP = compile_prolog_from_string(WRAP_SRC)


def small_term(rng, nv, depth=2, p_var=0.55):
    # lists (also with a variable as tail, at any depth) in about a third of the terms
    t = TM.rnd_term(rng, nv, depth, p_leaf=0.45, p_var=p_var, lists=rng.random() < 0.35)
    return TM.J(_nostr(t))


def _nostr(t):
    if t[0] == 's':
        return ('a', 'a')
    if t[0] == 'f':
        return ('f', t[1], tuple(_nostr(a) for a in t[2]))
    return t


def gen(seed, tier):
    rng = random.Random(seed)
    nv = rng.randrange(2, 6)
    ops = []
    template = rng.random() < 0.5
    if template:
        # the binding histories the property lists: bound before / after / through a chain / inside a structure
        x, y, z = 0, 1, 2 % nv
        pre = rng.choice([
            [['PUSH', ['v', x], ['f', 'f', [['v', y]]]], ['PUSH', ['v', y], ['a', 'a']]],          # X = f(Y), Y = a
            [['PUSH', ['v', x], ['v', y]], ['PUSH', ['v', y], ['a', 'a']]],                         # chain X -> Y -> a
            [['PUSH', ['v', x], ['f', 'g', [['v', y], ['v', z]]]], ['PUSH', ['v', z], ['a', 'b']]],  # partially bound structure
            [['PUSH', ['v', y], ['a', 'a']], ['PUSH', ['v', x], ['f', 'f', [['v', y]]]]],          # inner first
            [],
        ])
        ops += pre
        ops.append(['ASSERT', False, rng.choice(('fact', 'query', 'wrapv', 'inline')), [['v', x]]])
        for _ in range(rng.randrange(0, len(pre) + 1)):
            ops.append(['POP', rng.choice(('close', 'drop', 'resume', 'throw'))])
    if rng.random() < 0.15:
        # same-fact focus: one fact with a repeated variable, used by several independent uses with different
        # ground arguments (one suspended, one started and finished meanwhile, a third started afterwards ...)
        ops.append(['ASSERT', False, rng.choice(('fact', 'query', 'wrapv')), [['v', 0], ['v', 0]]])
        for _ in range(rng.randrange(3, 9)):
            if rng.random() < 0.5:
                x_ = rng.choice('abc')
                ops.append(['IUSE', rng.choice('qqqr'), [['a', x_], ['v', 100]] if rng.random() < 0.6 else [['a', x_], ['a', x_]]])
            else:
                ops.append(['ISTEP', rng.randrange(3)])
    for _ in range(rng.randrange(2, 22 * (2 if tier == 'thorough' else 1))):
        k = rng.random()
        if k < 0.05:
            ops.append(['NEWVAR'])
        elif k < 0.25:
            t1 = ['v', rng.randrange(nv)] if rng.random() < 0.7 else small_term(rng, nv)
            ops.append(['PUSH', t1, small_term(rng, nv)])
        elif k < 0.38:
            ops.append(['POP', rng.choice(('close', 'drop', 'resume', 'throw'))])
        elif k < 0.58:
            ar = rng.choice((1, 1, 2))
            ops.append(['ASSERT', rng.random() < 0.25, rng.choice(('fact', 'query', 'wrapv', 'inline', 'inlinef', 'inlinea')), [small_term(rng, nv) for _ in range(ar)]])
        elif k < 0.78:
            ar = rng.choice((1, 1, 2))
            pat = []
            for _ in range(ar):
                r = rng.random()
                if r < 0.35:
                    pat.append(['v', 100 + rng.randrange(2)])          # fresh variable of this use
                elif r < 0.55:
                    pat.append(['v', rng.randrange(nv)])               # a pool variable (possibly one that occurred in the fact)
                else:
                    pat.append(small_term(rng, nv, 2, 0.35))
            ops.append(['USE', pat])
        elif k < 0.84:
            # an independent use: its pattern has only its own variables, so it may be stepped at any time,
            # whatever else is suspended (query or retract)
            ar = rng.choice((1, 1, 2))
            pat = [(['v', 100 + j] if rng.random() < 0.6 else TM.J(TM.rnd_term(rng, 0, 1, lists=False) if rng.random() < 0.5 else ('a', rng.choice('ab')))) for j in range(ar)]
            pat = [x if x[0] != 's' else ['a', 'a'] for x in pat]
            ops.append(['IUSE', rng.choice('qqr'), pat])
        elif k < 0.9:
            ops.append(['ISTEP', rng.randrange(3)])
        elif k < 0.92:
            # a selective retractall with a ground pattern (done only while no use is suspended): what it leaves behind
            # must keep behaving as stored
            ar = rng.choice((1, 2, 2))
            ops.append(['RETRACTALL', [['a', rng.choice(['a', 'b', 'c', 'fill1', 'fill2'])] for _ in range(ar)]])
        elif k < 0.94:
            # depth faults: an assert whose copy overflows the stack half-way, or a use of a deep non-ground fact
            # that is aborted by the recursion limit; both are handled by the caller
            dk = rng.choice(('list', 'nest'))
            ops.append(rng.choice([['FAULTASSERT', dk, small_term(rng, nv, 1, 0.9)]] + [['DEEPFACT', dk, rng.randrange(nv)], ['FAULTUSE', 0],
                                   ['IUSE', 'q', [['deep', dk, ['a', rng.choice('ab')]]]]] * 2))
            if ops[-1][0] == 'DEEPFACT' and rng.random() < 0.7:
                # the typical sequence: the first use of the deep fact is aborted, then two uses that bind its variable differently
                ops += [['FAULTUSE', 0], ['IUSE', 'q', [['deep', dk, ['a', 'a']]]], ['IUSE', 'q', [['deep', dk, ['a', 'b']]]], ['ISTEP', 0]]
        else:
            ops.append(['STEP'])
    # size-dependent paths: p/1 and p/2 may already hold many (ground, unrelated) facts when the history starts
    plan = {'nv': nv, 'ops': ops, 'prefill': rng.choice((0, 0, 0, 0, 0, 0, 33, 40, 70))}
    # constants that are equal to each other but are different Python values (1, True, 1.0; 0, False, 0.0; '' ...): stored
    # in kc/1 before the history (drawn after everything else, so the histories of earlier versions are unchanged) and
    # read back after it - "holds the value its argument had" includes which of the equal values it was
    if rng.random() < 0.35:
        fam = rng.choice(([1, True, 1.0], [0, False, 0.0], [2, 2.0, '2'], [1, True, 1.0, '1', 'True'], [0, 0.0, False, '', None]))
        ks = [rng.choice(fam) for _ in range(rng.randrange(2, 7))]
        plan['kconsts'] = [[rng.choice(('fact', 'query', 'wrapv')), k_, rng.random() < 0.2] for k_ in ks]
    return plan


def show_op(op):
    if op[0] == 'PUSH':
        return 'PUSH %s = %s' % (TM.show(TM.T(op[1])), TM.show(TM.T(op[2])))
    if op[0] == 'ASSERT':
        return '%s[%s] p(%s)' % ('asserta' if op[1] else 'assertz', op[2], ','.join(TM.show(TM.T(t)) for t in op[3]))
    if op[0] == 'USE':
        return 'USE p(%s)' % ','.join(TM.show(TM.T(t)) for t in op[1])
    if op[0] == 'IUSE':
        return 'start independent %s p(%s)' % ('query' if op[1] == 'q' else 'retract', ','.join(('<150-deep %s ending in %s>' % (t[1], TM.show(TM.T(t[2]))) if t[0] == 'deep' else TM.show(TM.T(t))) for t in op[2]))
    if op[0] == 'RETRACTALL':
        return 'retractall p(%s)' % ','.join(TM.show(TM.T(t)) for t in op[1])
    if op[0] == 'ISTEP':
        return 'step independent use #%d' % op[1]
    if op[0] == 'FAULTASSERT':
        return 'FAULT assert_fact p(%s, <150-deep %s>) with 60 frames of stack left (raises, handled)' % (TM.show(TM.T(op[2])), op[1])
    if op[0] == 'DEEPFACT':
        return 'assertz p(<150-deep %s ending in _V%d>)' % (op[1], op[2])
    if op[0] == 'FAULTUSE':
        return 'FAULT use p(_) with 60 frames of stack left (aborted by RecursionError if it meets a deep fact; handled)'
    return ' '.join(str(x) for x in op)


def sample_view(plan):
    return {'pool_variables': plan['nv'], 'history': [show_op(op) for op in plan['ops']]}


def execute(plan):
    from yldprolog.engine import YP, unify
    prewarm()
    log = core.Log(keep=plan.get('_keep', False))
    yp = YP()
    yp.load_script_from_string(_WRAP, fn='<sim:wrap>')
    pool = Pool(yp, max(1, plan['nv']))
    model = FactStore()
    meta = {}            # record id -> dict(bound_at_assert, s_at_assert)
    for i_ in range(plan.get('prefill', 0)):
        for ar_ in (1, 2):
            yp.assert_fact(yp.atom('p'), [yp.atom('fill%d' % i_)] * ar_)
            rec_ = model.add(('p', ar_), [('a', 'fill%d' % i_)] * ar_, False)
            meta[rec_[0]] = {'bound': False, 's': {}, 'vars': []}
    if plan.get('prefill'):
        log.count('store_prefilled_with_many_facts')
    kwant = []
    for route_, k_, front_ in plan.get('kconsts', ()):
        if route_ == 'fact':
            yp.assert_fact(yp.atom('kc'), [k_], not front_)
        else:
            for _ in yp.query(('wv_' if route_ == 'wrapv' else '') + ('asserta' if front_ else 'assertz'), [yp.functor('kc', [k_])]):
                pass
        kwant.insert(0, k_) if front_ else kwant.append(k_)
    if len(set(type(k_) for k_ in kwant)) > 1:
        log.count('equal_constants_of_different_types_stored')
    s = {}
    stack = []           # frames: dict(kind='unify'|'use', task, s_before, ...)
    indep = []           # independent uses (own variables only): steppable in any order

    def norm(t):
        # pool variables modulo pool size; indices >= 100 are use-local
        if t[0] == 'v':
            return t if t[1] >= 100 else ('v', t[1] % len(pool))
        if t[0] == 'f':
            return ('f', t[1], tuple(norm(a) for a in t[2]))
        return t

    def n_uses():
        return sum(1 for f in stack if f['kind'] == 'use')

    def step_use(fr):
        """advance the use frame on top of the stack; returns False on violation"""
        nonlocal s
        log.count('cases')
        if fr['snap'] is None:
            fr['snap'] = model.snapshot(fr['key'])
        s0 = fr['s_before']
        want = None
        rec = None
        while fr['pos'] < len(fr['snap']):
            rec = fr['snap'][fr['pos']]
            fr['pos'] += 1
            s2 = model.match(fr['pat'], rec[1], s0)     # may raise Cyclic
            if s2 is not None:
                want = s2
                break
        ok = fr['task'].step()
        log.ev('step', ok, want is not None)
        if ok != (want is not None):
            log.violation('use-outcome', {'use': fr['show'], 'answer_no': fr['answers'] + 1, 'engine_answers': ok, 'model_answers': want is not None,
                                          'model_fact': None if want is None else [TM.show(x) for x in TM.canon(rec[1])]})
            return False
        if not ok:
            s = s0
            stack.pop()
            return True
        fr['answers'] += 1
        s = want
        log.count('use_answer')
        mt = meta.get(rec[0], {})
        nonground = not all(TM.is_ground(x) for x in rec[1])
        if nonground:
            log.count('nonground_fact_answered')
        others = n_uses() - 1
        if others:
            log.count('use_while_other_use_suspended')
        changed = mt.get('s') is not None and any(TM.resolve(('v', i), mt['s']) != TM.resolve(('v', i), s0) for i in mt.get('vars', ()))
        if changed:
            log.count('use_after_binding_changed')
        if nonground or mt.get('bound') or others:
            log.key((TM.canon(rec[1]), TM.canon(fr['pat']), others, bool(mt.get('bound')), changed, fr['answers']))
        ids = pool.ids()
        got = TM.canon([TM.observe(a, ids) for a in fr['pargs']] + [TM.observe(v, ids) for v in pool.vars])
        exp = TM.canon([TM.resolve(p, s) for p in fr['pat']] + [TM.resolve(('v', i), s) for i in range(len(pool))])
        if got != exp:
            log.violation('use-binding', {'use': fr['show'], 'answer_no': fr['answers'], 'stored_fact': [TM.show(x) for x in TM.canon(rec[1])],
                                          'engine': [TM.show(x) for x in got], 'model': [TM.show(x) for x in exp],
                                          'columns': 'pattern arguments, then pool variables'})
            return False
        return True

    try:
        for op in plan['ops']:
            kind = op[0]
            if kind == 'NEWVAR':
                pool.newvar()
                log.ev('newvar')
            elif kind == 'RETRACTALL':
                if n_uses() or any(not f_['task'].done for f_ in indep if f_.get('task') is not None):
                    log.ev('noop')
                    continue
                pat_ = [TM.T(t) for t in op[1]]
                key_ = ('p', len(pat_))
                n_ = sum(1 for _ in yp.query('retractall', [yp.functor('p', [TM.build(yp, t, {}) for t in pat_])]))
                gone_ = 0
                for rid_, row_ in model.snapshot(key_):
                    if model.match(pat_, row_, {}) is not None:
                        model.remove_id(key_, rid_)
                        gone_ += 1
                log.count('selective_retractall')
                if gone_ and model.rows(key_):
                    log.count('selective_retractall_left_facts_behind')
                log.ev('retractall', len(pat_), n_, gone_)
            elif kind == 'PUSH':
                if len(stack) >= 7:
                    log.ev('noop')
                    continue
                t1, t2 = norm(TM.T(op[1])), norm(TM.T(op[2]))
                if any(v >= 100 for v in TM.variables_of(t1) + TM.variables_of(t2)):
                    log.ev('noop')
                    continue
                if TM.munify_any_order_cyclic(t1, t2, s):
                    log.ev('skip-cyclic')
                    continue
                s2 = TM.munify(t1, t2, s)
                task = GenTask(unify(pool.build(t1), pool.build(t2)))
                ok = task.step()
                log.ev('push', ok)
                if ok != (s2 is not None):
                    log.count('precondition_lost')     # C02's subject
                    break
                if ok:
                    if n_uses():
                        log.count('bind_while_use_suspended')
                    stack.append({'kind': 'unify', 'task': task, 's_before': s})
                    s = s2
            elif kind == 'POP':
                if not stack:
                    log.ev('noop')
                    continue
                fr = stack.pop()
                mode = op[1] if (fr['kind'] == 'unify' or op[1] != 'resume') else 'close'
                end_task(fr['task'], mode)
                s = fr['s_before']
                log.ev('pop', fr['kind'], mode)
                if pool.observe_all() != pool.model_all(s):
                    log.count('precondition_lost')         # restoration is C03's subject
                    break
            elif kind == 'ASSERT':
                _, front, route, targs = op
                targs = [norm(TM.T(t)) for t in targs]
                if any(v >= 100 for t in targs for v in TM.variables_of(t)):
                    log.ev('noop')
                    continue
                key = ('p', len(targs))
                vs = [v for t in targs for v in TM.variables_of(t)]
                bound_now = [v for v in vs if TM.walk(('v', v), s) != ('v', v)]
                if bound_now:
                    log.count('assert_with_bound_variable')
                    if any(TM.walk(('v', v), s)[0] == 'f' and not TM.is_ground(TM.resolve(('v', v), s)) or
                           any(TM.walk(('v', w), s) != ('v', w) for w in TM.variables_of(TM.walk(('v', v), s))) for v in bound_now):
                        log.count('assert_bound_inside_structure')
                stored = [TM.resolve(t, s) for t in targs]
                if any(not TM.is_ground(t) for t in stored):
                    log.count('assert_with_unbound_variable')
                eargs = [pool.build(t) for t in targs]
                if route in ('inlinef', 'inlinea') and len(targs) != 1:
                    route = 'inline'
                if route == 'inlinea':
                    log.count('assert_compiled_with_anonymous_variable')
                log.count('route_' + ('inline' if route in ('inlinef', 'inlinea') else route))
                if route == 'fact':
                    yp.assert_fact(yp.atom('p'), eargs, not front)
                elif route == 'query':
                    n = sum(1 for _ in yp.query('asserta' if front else 'assertz', [yp.functor('p', eargs)]))
                elif route == 'wrapv':
                    n = sum(1 for _ in yp.query('wv_asserta' if front else 'wv_assertz', [yp.functor('p', eargs)]))
                elif route == 'inlinef':
                    front = False
                    stored = [('f', 'f', (stored[0],))]
                    n = sum(1 for _ in yp.query('ib1', eargs))
                elif route == 'inlinea':
                    # the clause's own anonymous variable inside the asserted term: fact-local like any other
                    front = False
                    stored = [('f', 'g', (stored[0], ('v', 5000)))]
                    n = sum(1 for _ in yp.query('ic1', eargs))
                else:
                    front = False
                    n = sum(1 for _ in yp.query('ia%d' % len(eargs), eargs))
                m = {}
                rec = model.add(key, [TM.rename(t, m, model.fresh) for t in stored], front)
                meta[rec[0]] = {'bound': bool(bound_now), 's': s, 'vars': vs}
                log.ev('assert', route, front, len(targs))
                # asserting must not bind anything in the asserting context
                if pool.observe_all() != pool.model_all(s):
                    log.violation('assert-changed-bindings', {'op': show_op(op)})
                    break
            elif kind == 'USE':
                if len(stack) >= 7:
                    log.ev('noop')
                    continue
                pat = [norm(TM.T(t)) for t in op[1]]
                extra = {}
                pargs = [pool.build(t, extra) for t in pat]
                # use-local variables get model ids that cannot clash with fact-local ones
                local = {}
                def loc(t):
                    if t[0] == 'v' and t[1] >= 100:
                        if t[1] not in local:
                            local[t[1]] = model.fresh()
                        return ('v', local[t[1]])
                    if t[0] == 'f':
                        return ('f', t[1], tuple(loc(a) for a in t[2]))
                    return t
                mpat = [loc(t) for t in pat]
                fr = {'kind': 'use', 'task': GenTask(yp.query('p', pargs)), 's_before': s, 'key': ('p', len(pat)), 'pat': mpat, 'pargs': pargs,
                      'snap': None, 'pos': 0, 'answers': 0, 'show': show_op(op)}
                stack.append(fr)
                log.ev('use', len(pat))
                if not step_use(fr):
                    break
            elif kind == 'STEP':
                if not stack or stack[-1]['kind'] != 'use':
                    log.ev('noop')
                    continue
                if not step_use(stack[-1]):
                    break
            elif kind == 'FAULTASSERT':
                from ..machine import deep_model_term, LowRecursionLimit
                t = norm(TM.T(op[2]))
                eargs = [pool.build(t), pool.build(deep_model_term(op[1], 150))]
                raised = False
                with LowRecursionLimit(60):
                    try:
                        yp.assert_fact(yp.atom('p'), eargs)
                    except RecursionError:
                        raised = True
                if not raised:
                    # it fitted after all (cannot happen with 150 levels in 60 frames, but stay consistent)
                    model.add(('p', 2), [TM.rename(x, {}, model.fresh) for x in (TM.resolve(t, s), deep_model_term(op[1], 150))], False)
                log.count('fault_assert_overflow')
                log.ev('faultassert', raised)
                if pool.observe_all() != pool.model_all(s):
                    log.violation('assert-changed-bindings', {'op': show_op(op)})
                    break
            elif kind == 'DEEPFACT':
                from ..machine import deep_model_term
                vi = op[2] % len(pool)
                # the only variable sits at the bottom of the deep structure
                term = deep_model_term(op[1], 150, ('v', vi))
                yp.assert_fact(yp.atom('p'), [pool.build(term)])
                m_ = {}
                rec = model.add(('p', 1), [TM.rename(TM.resolve(term, s), m_, model.fresh)], False)
                meta[rec[0]] = {'bound': False, 's': s, 'vars': [vi]}
                log.count('deep_nonground_fact')
                log.ev('deepfact')
            elif kind == 'FAULTUSE':
                from ..machine import LowRecursionLimit
                # a use of p/1 or p/2 with fresh variables, run to its end with little stack: it either completes
                # or is aborted by RecursionError when it reaches a deep fact; nothing is kept of it
                ar_ = 1 + op[1] % 2
                vs_ = [yp.variable() for _ in range(ar_)]
                outcome = 'completed'
                with LowRecursionLimit(60):
                    try:
                        n_ = 0
                        for _ in yp.query('p', vs_):
                            n_ += 1
                            if n_ > 200:
                                break
                    except RecursionError:
                        outcome = 'aborted'
                log.count('fault_use_' + outcome)
                log.ev('faultuse', ar_, outcome)
            elif kind in ('IUSE', 'ISTEP'):
                if kind == 'IUSE':
                    if len(indep) >= 3:
                        log.ev('noop')
                        continue
                    from ..machine import deep_model_term
                    pat = [deep_model_term(t[1], 150, TM.T(t[2])) if t[0] == 'deep' else TM.T(t) for t in op[2]]
                    local = {}
                    mpat = [TM.rename(t, local, model.fresh) for t in pat]
                    vm = {}
                    pargs = [TM.build(yp, t, vm) for t in pat]
                    key = ('p', len(pat))
                    g = yp.query('p', pargs) if op[1] == 'q' else yp.query('retract', [yp.functor('p', pargs)])
                    iu = {'task': GenTask(g), 'kind': op[1], 'key': key, 'pat': mpat, 'pargs': pargs, 'snap': None, 'pos': 0, 'show': show_op(op), 'n': 0}
                    indep.append(iu)
                else:
                    if not indep:
                        log.ev('noop')
                        continue
                    iu = indep[op[1] % len(indep)]
                log.count('cases')
                if iu['snap'] is None:
                    iu['snap'] = model.snapshot(iu['key'])
                want = None
                while iu['pos'] < len(iu['snap']):
                    rid, row = iu['snap'][iu['pos']]
                    iu['pos'] += 1
                    s2 = model.match(iu['pat'], row, {})
                    if s2 is None:
                        continue
                    if iu['kind'] == 'r':
                        if not model.has_id(iu['key'], rid):
                            continue
                        model.remove_id(iu['key'], rid)
                    want = TM.canon([TM.resolve(p_, s2) for p_ in iu['pat']])
                    break
                ok = iu['task'].step()
                ids_ = {}
                got = TM.canon([TM.observe(a, ids_) for a in iu['pargs']]) if ok else None
                if len(indep) > 1 or n_uses():
                    log.count('independent_use_stepped_while_others_suspended')
                log.ev('iuse', iu['kind'], ok, want is not None)
                if got != want:
                    log.violation('use-binding', {'use': iu['show'], 'answer_no': iu['n'] + 1, 'engine': None if got is None else [TM.show(x) for x in got],
                                                  'model': None if want is None else [TM.show(x) for x in want],
                                                  'note': 'independent use (own variables only), stepped while other uses were suspended'})
                    break
                iu['n'] += 1
                if not ok:
                    indep.remove(iu)
                # nothing the independent use does may show in the pool variables
                if pool.observe_all() != pool.model_all(s):
                    log.violation('use-binding', {'use': iu['show'], 'note': 'an independent use changed the bindings of the asserting context'})
                    break
        if kwant and not log.violations:
            x_ = yp.variable()
            got_ = [x_.get_value() for _ in yp.query('kc', [x_])]
            sig = lambda vs: [[type(v).__name__, repr(v)] for v in vs]
            log.ev('kconsts', sig(got_))
            if sig(got_) != sig(kwant):
                log.violation('stored-constant-changed', {'asserted': sig(kwant), 'stored': sig(got_),
                                                          'note': 'a constant stored in a fact reads back as a different (if equal) Python value'})
    except TM.Cyclic:
        log.count('ended_unspecified_cyclic')
        log.ev('cyclic-end')
    except TM.TooDeep:
        log.violation('cyclic-term-built', {'note': 'the engine built a cyclic term where the model finds none'})
    except RecursionError:
        log.violation('recursion-error', {})
    except Exception as e:
        log.violation('raises', {'exception': type(e).__name__})
    while stack:
        stack.pop()['task'].close()
    for iu in indep:
        iu['task'].close()
    return log.result()


def simplify(plan):
    if plan['nv'] > 1:
        c = dict(plan)
        c['nv'] = plan['nv'] - 1
        yield c
    ops = plan['ops']
    for k, op in enumerate(ops):
        if op[0] == 'ASSERT':
            if op[2] != 'fact':
                c = dict(plan)
                c['ops'] = ops[:k] + [[op[0], op[1], 'fact', op[3]]] + ops[k + 1:]
                yield c
            if op[1]:
                c = dict(plan)
                c['ops'] = ops[:k] + [[op[0], False] + op[2:]] + ops[k + 1:]
                yield c
        f = {'ASSERT': 3, 'USE': 1}.get(op[0])
        if f is not None:
            from ..machine import simpler_terms
            for i, t in enumerate(op[f]):
                for st in simpler_terms(t):
                    c = dict(plan)
                    c['ops'] = ops[:k] + [op[:f] + [op[f][:i] + [st] + op[f][i + 1:]] + op[f + 1:]] + ops[k + 1:]
                    yield c
    yield from simplify_ops_terms(plan, {'PUSH': (1, 2)})


def witness(plan, viol):
    return viol['class'] + ': ' + ' ; '.join(show_op(op) for op in plan['ops'])
