"""C04 - engine instances are isolated; interleaved queries do not interfere.  N
engines with deliberately colliding vocabularies, histories interleaved by a seeded
scheduler at op, generator-step and (baton-passed threads, line-level pre-emption)
granularity; oracle = the same history run solo in a pristine forked process.  Plus
same-engine mode: simultaneously suspended queries over disjoint variables
(DESIGN.md section 4, C04)."""
import io, sys, random, contextlib, hashlib
from .. import core, terms as TM, progs
from ..machine import GenTask
from ..sched import Baton

PROP = 'C04'
LEVEL = 'exploration'
CASES_ARE_COUNTED = True
WALL_CAP_S = 90
NO_RERUN = True
TIERS = {'quick': {'runs': 5000, 'budget_s': 55}, 'thorough': {'runs': 200000, 'budget_s': 900}}
DDMIN_FIELDS = ('schedule',)
RULE = ('one run = 2-3 engines with colliding vocabularies (same predicate, atom, script and native names), each with its own seeded history of '
        '5-25 ops (compile+load a script with overwrite on/off, assert_fact, assertz via query, retract k answers, retractall, register_function, '
        'clear, atom identity, start/step/close/drop query generators, full queries), executed under one seeded schedule kind: back-to-back, '
        'reverse, op-level interleaving (incl. interleaved next() of generators suspended in different engines), or thread mode (one real thread '
        'per engine, baton passing, every executed line of engine / compiler / generated code a pre-emption point, seeded switch probability '
        '0.5%-20%); or same-engine mode: 2-4 query tasks over disjoint variables on one engine, next/close/drop interleaved arbitrarily. '
        'Oracle: the per-engine observation log equals the log of that history executed alone in its own pristine forked process (same-engine: '
        'each task\'s answers equal its solo answers). A case = one op under the schedule; non-trivial = the op ran while another engine (or task) '
        'had done something since this engine\'s previous op; distinct = hash of the interleaving (order of (engine, op#) pairs; thread mode: the switch list)')
ASSUMPTIONS = [
    'an exception escaping an op is that op\'s outcome (EXC:<type>) and must be the same solo and interleaved; never a verdict by itself',
    'thread mode pre-empts at source-line granularity and never inside the ANTLR runtime or the ANTLR-generated lexer/parser (a parse is atomic)',
    'evaluate_bounded is excluded, as the statement says',
    'same-engine mode uses side-effect-free programs and tasks over pairwise disjoint variables',
]
COMPONENTS = {'real': ['yldprolog.engine (several YP instances in one process)', 'yldprolog.compiler pipeline per load', 'generated clause code', 'real threads (scheduled by baton)'],
              'stub': ['scheduler: which engine / generator / thread proceeds next', 'native predicates with tagged answers'],
              'oracle': ['self-referential: the same per-engine history executed solo in a pristine forked process']}
REQUIRED_PROBES = ('mode_back2back', 'mode_ops', 'mode_threads', 'mode_same_engine', 'preemptions_fired', 'two_engines_with_suspended_generators',
                   'clear_while_other_engine_suspended', 'compile_preempted', 'same_engine_interleaved_steps', 'same_engine_nonground_dynamic_facts')

SNIPS = [
    "p(s1a_{t}).\np(s1b_{t}).\nq(X,Y) :- p(X), p(Y).\n",
    "p(s2a_{t}) :- !.\np(s2b_{t}).\nr(X) :- q(X,_).\n",
    "p(X) :- f(X).\nq(k_{t},k_{t}).\n",
    "r(X) :- ( f(X) -> true ; X = none_{t} ).\nf(X) :- n(X).\n",
    "f(s5_{t}).\nw(X) :- f(X), \\+ p(X).\n",
]
QUERIES = ['p', 'f', 'r', 'w', 'n']
# ground arguments for calls: values of dynamic facts (a<tag> ...) and constants of the snippets' compiled clauses (s1a_<tag> ...)
GROUND_VALUES = ['a', 'b', 'c', 's1a_', 's1b_', 's2a_', 's2b_', 's5_']


def traced_files():
    import yldprolog.engine as E, yldprolog.compiler as C, yldprolog.yp_generator as G, yldprolog.yp_prolog_visitor as V
    return {E.__file__, C.__file__, G.__file__, V.__file__}


def gen_history(rng, n, ng_heavy=False):
    h = []
    if ng_heavy == 'ground':
        # ground calls of compiled clauses whose heads are atoms: every call is an atom-with-atom unification,
        # some of them held suspended at their answer while the other engines do the same
        h.append(['load', 0, True, True])
        for _ in range(n):
            k = rng.random()
            v = rng.choice(['s1a_', 's1b_', 's1a_', 'zz'])
            h.append(['queryg', 'p', v] if k < 0.4 else ['startg', 'p', v] if k < 0.6 else ['step', rng.randrange(4)] if k < 0.9 else ['close', rng.randrange(4), 'close'])
        return h
    if ng_heavy == 'many':
        # very many queries suspended at once on this engine (per-process or per-thread counters, pools and caches
        # sized for a handful of live generators)
        h.append(['load', 0, True, True])
        h.append(['maxtasks', 200])
        m = rng.choice((70, 125, 130))
        for i in range(m):
            h.append(['start', rng.choice(['p', 'p', 'f'])] if i % 3 else ['startg', 'p', rng.choice(['s1a_', 's1b_'])])
        for _ in range(n // 2):
            h.append(['step', rng.randrange(m)] if rng.random() < 0.7 else ['query', 'p'])
        return h
    if ng_heavy == 'wide':
        # facts and goals with 13 arguments, several of them suspended and stepped alternately
        for _ in range(n):
            k = rng.random()
            h.append(['assertwide', rng.choice('ab')] if k < 0.3 else ['startwide', rng.random() < 0.5] if k < 0.55 else ['step', rng.randrange(4)] if k < 0.9
                     else ['close', rng.randrange(4), rng.choice(['close', 'drop'])])
        return h
    if ng_heavy == 'reg':
        # registration-heavy: natives made on the spot come and go (re-registration, clear) in every engine
        for _ in range(n):
            k = rng.random()
            nm = rng.choice(['n', 'f'])
            h.append(['register', nm, rng.choice((1, 2))] if k < 0.45 else ['clear'] if k < 0.55 else ['querypair', nm] if k < 0.8 else ['query', nm])
        return h
    for _ in range(n):
        k = rng.random()
        if ng_heavy and k < 0.35:
            h.append(rng.choice([['assert', rng.choice(['p', 'f']), rng.choice('ab'), True, True], ['queryg', rng.choice(['p', 'f']), rng.choice(GROUND_VALUES)],
                                 ['startg', rng.choice(['p', 'f']), rng.choice(GROUND_VALUES)], ['step', rng.randrange(4)], ['load', rng.choice((0, 1, 4)), True, True]]))
            continue
        if ng_heavy and k < 0.7:
            # mostly facts with repeated variables and calls that bind one of their arguments
            h.append(['assertng', rng.choice(['g', 'h'])] if rng.random() < 0.3 else ['query2', rng.choice(['g', 'h']), rng.choice('abc')])
            continue
        k = rng.random()
        if k < 0.18:
            h.append(['load', rng.randrange(len(SNIPS)), rng.random() < 0.5, rng.random() < 0.5])
        elif k < 0.34:
            h.append(['assert', rng.choice(['p', 'f']), rng.choice('abc'), rng.random() < 0.5, rng.random() < 0.5])
        elif k < 0.38:
            h.append(['assertng', rng.choice(['g', 'g', 'h'])])
        elif k < 0.4:
            h.append(['retract', rng.choice(['p', 'f']), rng.randrange(3)])
        elif k < 0.42:
            # a retract kept suspended at its first answer (later `step` / `close` ops act on it)
            h.append(['startretract', rng.choice(['p', 'f'])])
        elif k < 0.46:
            h.append(['retractall', rng.choice(['p', 'f']), rng.choice('abc')])
        elif k < 0.52:
            # natives are closures made on the spot, referenced by the engine only, arity inferred from the signature
            h.append(['register', rng.choice(['n', 'f', 'p']), rng.choice((1, 1, 2))])
        elif k < 0.56:
            h.append(['clear'])
        elif k < 0.585:
            h.append(['atomid', rng.choice('ab')])
        elif k < 0.6:
            # facts made of plain Python constants; every engine uses its own type for "one" and "zero" (1 / 1.0 / True)
            h.append(rng.choice([['assertc', rng.randrange(2)], ['queryc'], ['queryc']]))
        elif k < 0.61:
            # an empty-list answer whose Python value the client then extends (the value is the client's)
            h.append(['emptylist'])
        elif k < 0.74:
            h.append(['start', rng.choice(QUERIES)])
        elif k < 0.9:
            h.append(['step', rng.randrange(4)])
        elif k < 0.95:
            h.append(['close', rng.randrange(4), rng.choice(['close', 'drop'])])
        elif k < 0.96:
            h.append(['query', rng.choice(QUERIES)] if rng.random() < 0.6 else ['querypair', rng.choice(['n', 'f', 'p'])])
        elif k < 0.975:
            # a call with a ground argument: atom-with-atom unifications (also held suspended at their answer)
            h.append([rng.choice(('queryg', 'startg')), rng.choice(['p', 'f']), rng.choice(GROUND_VALUES)])
        else:
            h.append(['query2', rng.choice(['g', 'h']), rng.choice('abc')])
    return h


def gen(seed, tier):
    rng = random.Random(seed)
    mode = rng.choice(['back2back', 'reverse', 'ops', 'ops', 'threads', 'threads', 'threads', 'same-engine'])
    if mode == 'same-engine':
        world = progs.gen_world(rng, rich=rng.random() < 0.7, natives=False, max_depth=2)
        world['dynamic'] = []
        world['prebind'] = []
        ntasks = rng.randrange(2, 5)
        goal_facts = rng.random() < 0.3
        # dynamic facts, some with fact-local variables, next to the compiled program
        dyn = []
        for _ in range(rng.randrange(0, 5)):
            n, a = rng.choice([('s', 2), ('q', 1), ('d', 2), ('d', 1)])
            dyn.append([n, [rng.choice([['v', 0], ['v', 1], ['a', 'a'], ['a', 'b'], ['i', 1], ['f', 'f', [['v', 0]]], ['f', '.', [['a', 'a'], ['v', 0]]]]) for _ in range(a)]])
        tasks = []
        for _ in range(ntasks):
            n, a = rng.choice([['p', 2], ['h1', 2], ['h2', 1], ['s', 2], ['q', 1], ['t', 3], ['u', 1], ['d', 2], ['d', 1], ['d', 2]])
            # arguments: the task's own fresh variables, or ground terms (tasks never share variables)
            tasks.append([n, a, [(['v', j] if rng.random() < 0.6 else rng.choice([['a', 'a'], ['a', 'b'], ['a', 'c'], ['i', 1], ['i', 2], TM.J(TM.mklist([('a', 'a'), ('a', 'b')])), TM.J(TM.mklist([('a', 'a'), ('a', 'c')]))])) for j in range(a)]])
        if rng.random() < 0.5:
            # several overlapping activations of the same compiled clauses (their `_` and local variables must be
            # fresh per activation): the first two tasks call the program's top predicate with their own variables
            tasks[0] = ['p', 2, [['v', 0], ['v', 1]]]
            tasks[1] = ['p', 2, [['v', 0], ['v', 1]]] if rng.random() < 0.7 else ['h1', 2, [['v', 0], ['v', 1]]]
        if rng.random() < 0.4:
            # same-fact focus: several tasks use one non-ground fact with different ground arguments
            dyn = [['d', [['v', 0], ['v', 0]]]] + dyn[:1]
            ntasks = rng.randrange(3, 5)
            tasks = [['d', 2, [rng.choice([['a', 'a'], ['a', 'b'], ['a', 'c']]), ['v', 0]]] for _ in range(ntasks)]
            if rng.random() < 0.4:
                # ... or one fact holding an open list, used with different closed lists
                dyn = [['d', [['f', '.', [['a', 'a'], ['v', 0]]]]]]
                tasks = [['d', 1, [TM.J(TM.mklist([('a', 'a'), ('a', rng.choice('bcd'))]))]] for _ in range(ntasks)]
        if rng.random() < 0.12:
            # same-atom focus: several facts with the same atom as first argument, several simultaneous calls with that atom
            dyn = [['d', [['a', 'a'], ['i', i]]] for i in (1, 2, 3)] + [['d', [['a', 'b'], ['i', 4]]]]
            ntasks = rng.randrange(3, 5)
            tasks = [['d', 2, [['a', rng.choice('aaab')], ['v', 0]]] for _ in range(ntasks)]
        if goal_facts:
            # a goal term passed in by the caller and called with an extra argument by a compiled clause; the task's
            # argument terms are built once, so the goal term outlives each call
            world['rules'] = ['p(X,Y) :- call(X,Y).'] + world['rules']
            tasks[0] = ['p', 2, [['f', 's', [['a', 'b']]], ['v', 1]]]
            tasks[1] = ['p', 2, [rng.choice([['f', 's', [['a', 'a']]], ['f', 'q', []]]), ['v', 1]]]
        steps = [[rng.randrange(ntasks), rng.choice(['next'] * 8 + ['close', 'drop'])] for _ in range(rng.randrange(4, 40))]
        return {'mode': mode, 'world': world, 'dynfacts': dyn, 'tasks': tasks, 'steps': steps}
    ne = rng.choice((2, 2, 3) if tier != 'thorough' else (2, 3, 3, 4))
    ng_heavy = rng.choice((False, False, False, False, True, True, 'ground', 'reg', 'many', 'wide'))
    hs = [gen_history(rng, rng.randrange(5, 26 * (2 if tier == 'thorough' else 1)), ng_heavy) for _ in range(ne)]
    return {'mode': mode, 'histories': hs, 'sched_seed': rng.randrange(1 << 30), 'switch_p': rng.choice((0.005, 0.02, 0.05, 0.2)), 'schedule': None}


def sample_view(plan):
    return plan


class EngineRun:
    """executes one engine's history op by op, logging a canonical observation per op"""

    def __init__(self, tag, hist):
        from yldprolog.engine import YP
        self.yp = YP()
        self.hist = hist
        self.pc = 0
        self.log = []
        self.tasks = []
        self.atoms = {}
        self.tag = tag
        self.nreg = 0
        self.max_tasks = 4

    def done(self):
        return self.pc >= len(self.hist)

    def suspended(self):
        return len(self.tasks)

    def step(self):
        op = self.hist[self.pc]
        self.pc += 1
        try:
            r = self._step(op)
        except Exception as e:
            r = 'EXC:' + type(e).__name__
        self.log.append([op[0], r])

    def _step(self, op):
        from yldprolog.engine import to_python, unify
        from yldprolog.compiler import compile_prolog_from_string
        yp = self.yp
        kind = op[0]
        if kind == 'assertwide':
            yp.assert_fact(yp.atom('wz'), [yp.atom(op[1] + self.tag)] + [yp.atom('m%d' % j) for j in range(11)] + [yp.atom('z' + op[1] + self.tag)])
            return None
        if kind == 'startwide':
            if len(self.tasks) >= self.max_tasks:
                return 'noop'
            x, y = yp.variable(), yp.variable()
            args = [x] + ([yp.variable() for _ in range(11)] if op[1] else [yp.atom('m%d' % j) for j in range(11)]) + [y]
            self.tasks.append([GenTask(yp.query('wz', args)), yp.functor('pair', [x, y])])
            return None
        if kind == 'assertc':
            variant = (int, float, bool)[int(self.tag) % 3] if self.tag.isdigit() else int
            yp.assert_fact(yp.atom('cst'), [variant(op[1])])
            return None
        if kind == 'queryc':
            x = yp.variable()
            return [repr(to_python(x)) for _ in yp.query('cst', [x])][:50]
        if kind == 'emptylist':
            x = yp.variable()
            out = []
            for _ in yp.query('findall', [yp.atom('nothing'), yp.functor('never_defined_goal', [yp.atom('z')]), x]):
                v = to_python(x)
                out.append(repr(v))
                if isinstance(v, list):
                    v.append('junk' + self.tag)
            return out
        if kind == 'maxtasks':
            self.max_tasks = op[1]
            return None
        if kind == 'load':
            # (no stderr redirection here: that would be process-global state introduced by the harness)
            # half of the loads use the very same text in every engine (a cache keyed by text would be shared)
            code = compile_prolog_from_string(SNIPS[op[1]].format(t=self.tag if (len(op) < 4 or op[3]) else 'x'))
            # scripts with an even index are loaded under one file-name label in every engine (a cache keyed by file name would be shared)
            yp.load_script_from_string(code, fn='<sim:%s>' % (self.tag if op[1] % 2 else 'script'), overwrite=op[2])
            return hashlib.sha256(code.encode()).hexdigest()[:8]
        if kind == 'assert':
            if op[4]:
                yp.assert_fact(yp.atom(op[1]), [yp.atom(op[2] + self.tag)], not op[3])
                return None
            return sum(1 for _ in yp.query('asserta' if op[3] else 'assertz', [yp.functor(op[1], [yp.atom(op[2] + self.tag)])]))
        if kind == 'assertng':
            # a fact with a repeated, fact-local variable: same(X,X)-like; matching it copies its arguments one by one
            v = yp.variable()
            yp.assert_fact(yp.atom(op[1]), [v, yp.functor('k', [v]), v])
            return None
        if kind == 'query2':
            x, y = yp.variable(), yp.variable()
            r = []
            for _ in yp.query(op[1], [yp.atom(op[2] + self.tag), x, y]):
                r.append([to_python(x), to_python(y)])
                if len(r) > 50:
                    break
            return r
        if kind == 'queryg':
            return sum(1 for _ in yp.query(op[1], [yp.atom(op[2] + self.tag)]))
        if kind == 'startg':
            if len(self.tasks) >= self.max_tasks:
                return 'noop'
            self.tasks.append([GenTask(yp.query(op[1], [yp.atom(op[2] + self.tag)])), yp.atom(op[2] + self.tag)])
            return None
        if kind == 'retract':
            x = yp.variable()
            g = yp.query('retract', [yp.functor(op[1], [x])])
            r = []
            try:
                for _ in range(op[2]):
                    next(g)
                    r.append(to_python(x))
            except StopIteration:
                pass
            g.close()
            return r
        if kind == 'startretract':
            if len(self.tasks) >= self.max_tasks:
                return 'noop'
            x = yp.variable()
            t = GenTask(yp.query('retract', [yp.functor(op[1], [x])]))
            if t.step():
                self.tasks.append([t, x])
                return to_python(x)
            return 'END'
        if kind == 'retractall':
            return sum(1 for _ in yp.query('retractall', [yp.functor(op[1], [yp.atom(op[2] + self.tag)])]))
        if kind == 'register':
            self.nreg += 1
            tagv = 'py%d_%s' % (self.nreg, self.tag)

            if len(op) > 2 and op[2] == 2:
                def native2(a, b):
                    for _ in unify(a, yp.atom(tagv)):
                        for _ in unify(b, yp.atom(tagv)):
                            yield False
                yp.register_function(op[1], native2)
                return None

            def native(a):
                for _ in unify(a, yp.atom(tagv)):
                    yield False
            yp.register_function(op[1], native)
            return None
        if kind == 'querypair':
            x, y = yp.variable(), yp.variable()
            r = []
            for _ in yp.query(op[1], [x, y]):
                r.append([to_python(x), to_python(y)])
                if len(r) > 50:
                    break
            return r
        if kind == 'clear':
            yp.clear()
            self.atoms = {}
            return None
        if kind == 'atomid':
            a = yp.atom(op[1])
            same = self.atoms.setdefault(op[1], a) is a
            return [same, a.name()]
        if kind == 'start':
            if len(self.tasks) >= self.max_tasks:
                return 'noop'
            x = yp.variable()
            self.tasks.append([GenTask(yp.query(op[1], [x])), x])
            return None
        if kind == 'step':
            if not self.tasks:
                return 'noop'
            t = self.tasks[op[1] % len(self.tasks)]
            if t[0].step():
                return to_python(t[1])
            self.tasks.remove(t)
            return 'END'
        if kind == 'close':
            if not self.tasks:
                return 'noop'
            t = self.tasks.pop(op[1] % len(self.tasks))
            if op[2] == 'drop':
                return t[0].drop()
            t[0].close()
            return None
        if kind == 'query':
            x = yp.variable()
            r = []
            for _ in yp.query(op[1], [x]):
                r.append(to_python(x))
                if len(r) > 50:
                    break
            return r
        return 'unknown-op'

    def finish(self):
        """the consumer closes what is still suspended (in thread mode: from another thread than the one that ran
        the history); what close() does is part of the observation"""
        out = []
        for t in self.tasks:
            try:
                t[0].close()
            except Exception as e:
                out.append('EXC:' + type(e).__name__)
        self.tasks = []
        self.log.append(['finish', out])


def _solo(args):
    tag, hist = args
    e = EngineRun(tag, hist)
    while not e.done():
        e.step()
    e.finish()
    return {'log': core.jsonable(e.log)}


def execute(plan):
    if plan['mode'] == 'same-engine':
        return execute_same_engine(plan)
    log = core.Log(keep=plan.get('_keep', False))
    hs = plan['histories']
    n = len(hs)
    mode = plan['mode']
    log.count('mode_' + ('back2back' if mode in ('back2back', 'reverse') else mode))
    # oracle: every history alone in its own pristine process (this child is itself a fresh fork of the zygote)
    solos = []
    for i, h in enumerate(hs):
        r = core.run_forked(_solo, (str(i), h), 60)
        if 'log' not in r:
            raise core.HarnessError('solo run failed: %r' % (r,))
        solos.append(r['log'])
    engines = [EngineRun(str(i), h) for i, h in enumerate(hs)]
    order = []

    def note(i):
        e = engines[i]
        others_susp = sum(1 for j, o in enumerate(engines) if j != i and o.suspended())
        if others_susp and e.suspended():
            log.count('two_engines_with_suspended_generators')
        if e.pc < len(e.hist) and e.hist[e.pc][0] == 'clear' and others_susp:
            log.count('clear_while_other_engine_suspended')
        order.append((i, e.pc))
        log.ev('op', i, e.pc)
        log.count('cases')

    extra = {}
    if mode in ('back2back', 'reverse'):
        seq = range(n) if mode == 'back2back' else range(n - 1, -1, -1)
        for i in seq:
            while not engines[i].done():
                note(i)
                engines[i].step()
    elif mode == 'ops':
        rng = random.Random(plan['sched_seed'])
        while True:
            live = [i for i in range(n) if not engines[i].done()]
            if not live:
                break
            i = live[rng.randrange(len(live))]
            note(i)
            engines[i].step()
    else:
        baton = Baton(n, traced_files(), seed=plan['sched_seed'], p=plan['switch_p'], schedule=plan.get('schedule'))

        def body(i):
            def run():
                while not engines[i].done():
                    note(i)
                    engines[i].step()
            return run
        ok = baton.run([body(i) for i in range(n)], first=plan['sched_seed'] % n, wall_cap=80.0, block_s=15.0)
        if ok == 'blocked':
            # the running engine waits for something that only another, parked engine could release
            h = baton.holder
            e = engines[h] if h is not None and h < n else None
            log.violation('engine-blocked', {'engine': h, 'mode': mode, 'op_index': None if e is None else e.pc - 1,
                                             'op': None if e is None or not (0 < e.pc <= len(e.hist)) else e.hist[e.pc - 1],
                                             'note': 'no pre-emption point reached for 15 s while every other engine was parked: it blocks on something another engine holds'})
            if plan.get('schedule') is None:
                extra['schedule'] = [list(x) for x in baton.switches]
            return log.result(extra=extra)
        if not ok or baton.errors:
            raise core.HarnessError('thread mode stalled or failed: %r' % (baton.errors,))
        log.count('preemption_points', baton.points)
        log.count('preemptions_fired', baton.fired)
        comp = sum(v for k, v in baton.in_file.items() if k in ('compiler.py', 'yp_generator.py', 'yp_prolog_visitor.py'))
        if comp:
            log.count('compile_preempted', comp)
        gen_code = sum(v for k, v in baton.in_file.items() if k.startswith('<sim'))
        if gen_code:
            log.count('generated_code_preempted', gen_code)
        if plan.get('schedule') is None:
            extra['schedule'] = [list(x) for x in baton.switches]
        log.ev('threads', baton.points, baton.fired)
        log.key(('threads', tuple(baton.switches if plan.get('schedule') is None else map(tuple, plan['schedule']))))
    for e in engines:
        e.finish()
    if mode != 'threads':
        log.key((mode, tuple(order)))
    for i, e in enumerate(engines):
        got = core.jsonable(e.log)
        log.ev('engine', i, core.short_hash(got))
        if got != solos[i]:
            k = next((j for j, (x, y) in enumerate(zip(got + [None], solos[i] + [None])) if x != y), None)
            log.violation('interference', {'engine': i, 'mode': mode, 'op_index': k, 'op': hs[i][k] if k is not None and k < len(hs[i]) else None,
                                           'interleaved': got[k] if k is not None and k < len(got) else None,
                                           'solo': solos[i][k] if k is not None and k < len(solos[i]) else None})
            break
    return log.result(extra=extra)


def execute_same_engine(plan):
    log = core.Log(keep=plan.get('_keep', False))
    log.count('mode_same_engine')
    from yldprolog.engine import YP
    from yldprolog.compiler import compile_prolog_from_string
    world = plan['world']
    try:
        with contextlib.redirect_stderr(io.StringIO()):
            code = compile_prolog_from_string(progs.world_source(world))
        yp = YP()
        yp.load_script_from_string(code, fn='<sim:same>')
    except Exception:
        return log.result(discard='compile-or-load')
    CAP = 12

    def observe(vs):
        return TM.observe_canon(vs)

    for n_, row in plan.get('dynfacts', []):
        vm = {}
        yp.assert_fact(yp.atom(n_), [TM.build(yp, TM.T(x), vm) for x in row])
    if any(not TM.is_ground(TM.T(x)) for _, row in plan.get('dynfacts', []) for x in row):
        log.count('same_engine_nonground_dynamic_facts')

    built = {}

    def mk(t):
        # a task's argument terms are built once and used for its solo run and for its interleaved run
        key_ = id(t)
        if key_ not in built:
            vm = {}
            built[key_] = [TM.build(yp, TM.T(x), vm) for x in t[2]] if len(t) > 2 else [yp.variable() for _ in range(t[1])]
        vs = built[key_]
        return GenTask(yp.query(t[0], vs)), vs
    try:
        solo = []
        for t in plan['tasks']:
            g, vs = mk(t)
            ans, end = [], None
            try:
                with core.LineBudget(200000, {sys.modules['yldprolog.engine'].__file__}):
                    while len(ans) < CAP:
                        if not g.step():
                            end = 'END'
                            break
                        ans.append(observe(vs))
            except core.BudgetExceeded:
                g.close()
                return log.result(discard='line-budget')
            except Exception as e:
                end = 'EXC:' + type(e).__name__
            if not g.done:
                g.close()
            solo.append((ans, end))
        live = [mk(t) + ([],) for t in plan['tasks']]
        state = ['live'] * len(live)
        last = None
        for ti, action in plan['steps']:
            ti %= len(live)
            if state[ti] != 'live':
                continue
            g, vs, ans = live[ti]
            log.count('cases')
            if last is not None and last != ti:
                log.count('same_engine_interleaved_steps')
            last = ti
            if action == 'next' and len(ans) < CAP:
                try:
                    if g.step():
                        ans.append(observe(vs))
                        out = 'answer'
                    else:
                        state[ti] = 'END'
                        out = 'END'
                except Exception as e:
                    state[ti] = 'EXC:' + type(e).__name__
                    out = state[ti]
            elif action == 'drop':
                g.drop()
                state[ti] = 'closed'
                out = 'dropped'
            else:
                g.close()
                state[ti] = 'closed'
                out = 'closed'
            log.ev('task', ti, action, out, len(ans))
            want_ans, want_end = solo[ti]
            bad = ans != want_ans[:len(ans)]
            if state[ti] in ('END',) or state[ti].startswith('EXC:'):
                bad = bad or (ans, state[ti]) != (want_ans, want_end)
            if bad:
                log.violation('same-engine-interference', {'task': ti, 'query': plan['tasks'][ti], 'answers_interleaved': len(ans), 'state': state[ti],
                                                           'solo_answers': len(want_ans), 'solo_end': want_end})
                break
        log.key(('same', core.short_hash(world['rules']), tuple(map(tuple, plan['steps']))))
        for (g, vs, ans), st in zip(live, state):
            if st == 'live':
                g.close()
    except (TM.TooDeep, RecursionError):
        return log.result(discard='cyclic-term')
    return log.result()


def simplify(plan):
    if plan['mode'] == 'same-engine':
        for k in range(len(plan['steps'])):
            c = dict(plan)
            c['steps'] = plan['steps'][:k] + plan['steps'][k + 1:]
            yield c
        w = plan['world']
        for k in range(len(w['rules'])):
            c = dict(plan)
            c['world'] = dict(w, rules=w['rules'][:k] + w['rules'][k + 1:])
            yield c
        return
    hs = plan['histories']
    # cut tails and whole histories first (keeps the recorded schedule: ops that would run after the
    # observed difference do not shift the ordinals of earlier pre-emption points)
    for i, h in enumerate(hs):
        for cut in (0, len(h) // 2, len(h) - 1):
            if 0 <= cut < len(h):
                c = dict(plan)
                c['histories'] = hs[:i] + [h[:cut]] + hs[i + 1:]
                yield c
    # drop an op from one history (the solo oracle is recomputed for every candidate)
    for i, h in enumerate(hs):
        for k in range(len(h) - 1, -1, -1):
            c = dict(plan)
            c['histories'] = hs[:i] + [h[:k] + h[k + 1:]] + hs[i + 1:]
            if plan['mode'] == 'threads':
                c['schedule'] = None        # ordinals shift when ops disappear: search a schedule again from the seed
            yield c
    if plan['mode'] == 'threads' and plan.get('schedule') is None:
        return


def witness(plan, viol):
    d = viol['detail']
    if plan['mode'] == 'same-engine':
        return '%s: tasks=%s rules=%s' % (viol['class'], plan['tasks'], ' '.join(plan['world']['rules']))
    return '%s: mode=%s engine=%s op=%s histories=%s' % (viol['class'], plan['mode'], d.get('engine'), d.get('op'),
                                                        [[' '.join(map(str, o)) for o in h] for h in plan['histories']])


def prewarm():
    progs.prewarm_compiler()
    from yldprolog.compiler import compile_prolog_from_string
    for s in SNIPS:
        with contextlib.redirect_stderr(io.StringIO()):
            compile_prolog_from_string(s.format(t='0'))
