"""Reference models (DESIGN.md 3.6): small, executable, independent of engine code."""
from . import terms as TM


class FactStore:
    """Per (name, arity) an ordered list of records (id, row); row = tuple of model terms
    whose variables are local to the record.  Enumerations follow the logical update
    view: they walk the records present when the goal started."""

    def __init__(self):
        self.lists = {}
        self.next_id = 0
        self.fresh_counter = 10000

    def fresh(self):
        self.fresh_counter += 1
        return self.fresh_counter

    def records(self, key):
        return self.lists.get(key, [])

    def rows(self, key):
        return [row for _, row in self.records(key)]

    def add(self, key, row, front=False):
        self.next_id += 1
        rec = (self.next_id, tuple(row))
        lst = self.lists.setdefault(key, [])
        if front:
            lst.insert(0, rec)
        else:
            lst.append(rec)
        return rec

    def remove_id(self, key, rid):
        lst = self.lists.get(key, [])
        for i, (j, _) in enumerate(lst):
            if j == rid:
                del lst[i]
                return True
        return False

    def has_id(self, key, rid):
        return any(j == rid for j, _ in self.lists.get(key, []))

    def clear(self):
        self.lists = {}

    def match(self, pattern, row, s):
        """unifies the pattern (tuple of model terms) with a renamed-apart copy of the
        row under substitution s; returns the new substitution or None"""
        m = {}
        for p, f in zip(pattern, row):
            f = TM.rename(f, m, self.fresh)
            s = TM.munify(p, f, s)
            if s is None:
                return None
        return s

    def snapshot(self, key):
        return list(self.records(key))
