"""Model terms, an independent Robinson unifier, canonical observation of engine
terms, and seeded term generators.  Nothing in here uses engine code except `observe`
and `build`, which read / construct engine terms through the public API (plus the
de-facto accessors Functor._name/_args, as the repository's own builtins do).

Model terms (immutable, JSON-able as nested lists):
    ('v', i)  ('a', name)  ('i', n)  ('s', text)  ('f', name, (args...))
Lists are '.'/2 cells ending in the atom '[]'.
"""

NIL = ('a', '[]')


class Cyclic(Exception):
    """the unifier would need a cyclic term: unspecified behaviour, never executed"""


class TooDeep(Exception):
    """an engine term exceeded the observer's depth cap (cyclic term built by the engine)"""


def T(x):
    """JSON (nested lists) -> model term (nested tuples)"""
    if isinstance(x, (list, tuple)):
        if x[0] == 'f':
            return ('f', x[1], tuple(T(a) for a in x[2]))
        return (x[0], x[1])
    raise ValueError(x)


def J(t):
    """model term -> JSON-able"""
    if t[0] == 'f':
        return ['f', t[1], [J(a) for a in t[2]]]
    return [t[0], t[1]]


def mklist(items, tail=NIL):
    r = tail
    for x in reversed(items):
        r = ('f', '.', (x, r))
    return r


def walk(t, s):
    while t[0] == 'v' and t[1] in s:
        t = s[t[1]]
    return t


def occurs(i, t, s):
    t = walk(t, s)
    if t[0] == 'v':
        return t[1] == i
    if t[0] == 'f':
        return any(occurs(i, a, s) for a in t[2])
    return False


def munify(a, b, s):
    """returns an extended substitution (new dict) or None; raises Cyclic when the
    solution needs a cyclic term"""
    a = walk(a, s)
    b = walk(b, s)
    if a[0] == 'v' and b[0] == 'v' and a[1] == b[1]:
        return s
    if a[0] == 'v':
        if occurs(a[1], b, s):
            raise Cyclic
        s = dict(s)
        s[a[1]] = b
        return s
    if b[0] == 'v':
        if occurs(b[1], a, s):
            raise Cyclic
        s = dict(s)
        s[b[1]] = a
        return s
    if a[0] != b[0]:
        return None
    if a[0] != 'f':
        return s if a[1] == b[1] else None
    if a[1] != b[1] or len(a[2]) != len(b[2]):
        return None
    for x, y in zip(a[2], b[2]):
        s = munify(x, y, s)
        if s is None:
            return None
    return s


def munify_any_order_cyclic(a, b, s):
    """True if unifying under *some* argument order would run into a cyclic binding
    (the engine's order is its own business, so such pairs are unspecified).  The
    model unifier visits arguments left to right; a pair is also unspecified if the
    right-to-left visit hits a cycle.  Cheap approximation of 'any sub-pair order':
    both directions, both argument orders."""
    def rev(t):
        if t[0] == 'f':
            return ('f', t[1], tuple(rev(x) for x in reversed(t[2])))
        return t
    for (x, y) in ((a, b), (b, a), (rev(a), rev(b)), (rev(b), rev(a))):
        try:
            munify(x, y, s)
        except Cyclic:
            return True
    return False


def resolve(t, s):
    t = walk(t, s)
    if t[0] == 'f':
        return ('f', t[1], tuple(resolve(a, s) for a in t[2]))
    return t


def is_ground(t):
    if t[0] == 'v':
        return False
    if t[0] == 'f':
        return all(is_ground(a) for a in t[2])
    return True


def variables_of(t, acc=None):
    acc = [] if acc is None else acc
    if t[0] == 'v':
        if t[1] not in acc:
            acc.append(t[1])
    elif t[0] == 'f':
        for a in t[2]:
            variables_of(a, acc)
    return acc


def rename(t, m, fresh):
    if t[0] == 'v':
        if t[1] not in m:
            m[t[1]] = fresh()
        return ('v', m[t[1]])
    if t[0] == 'f':
        return ('f', t[1], tuple(rename(a, m, fresh) for a in t[2]))
    return t


def canon(terms):
    """numbers variables by first occurrence over the whole tuple: equality of canon
    forms = equality up to renaming, aliasing included"""
    m = {}

    def c(t):
        if t[0] == 'v':
            return ('v', m.setdefault(t[1], len(m)))
        if t[0] == 'f':
            return ('f', t[1], tuple(c(a) for a in t[2]))
        return t
    return tuple(c(t) for t in terms)


def size(t):
    if t[0] == 'f':
        return 1 + sum(size(a) for a in t[2])
    return 1


def to_py(t):
    """what engine.to_python is documented to return for the term (C16's mapping)"""
    if t[0] == 'v':
        return None
    if t[0] == 'a':
        return [] if t[1] == '[]' else t[1]
    if t[0] in 'is':
        return t[1]
    if t[1] == '.' and len(t[2]) == 2:
        tail = to_py(t[2][1])
        return [to_py(t[2][0])] + tail
    return (t[1], [to_py(a) for a in t[2]])


def py_defined(t):
    """to_python is documented for proper lists only: False if t contains a '.'/2 cell
    whose tail is neither a list cell nor []"""
    if t[0] != 'f':
        return True
    if t[1] == '.' and len(t[2]) == 2:
        tail = t[2][1]
        if not (tail == NIL or (tail[0] == 'f' and tail[1] == '.' and len(tail[2]) == 2)):
            return False
    return all(py_defined(a) for a in t[2])


def show(t):
    if t[0] == 'v':
        return '_V%d' % t[1]
    if t[0] == 'a':
        n = t[1]
        return n if (n == '[]' or (n[:1].islower() and n.replace('_', 'a').isalnum())) else "'%s'" % n
    if t[0] == 'i':
        return str(t[1])
    if t[0] == 's':
        return '"%s"' % t[1]
    if t[1] == '.' and len(t[2]) == 2:
        items = []
        while t[0] == 'f' and t[1] == '.' and len(t[2]) == 2:
            items.append(show(t[2][0]))
            t = t[2][1]
        if t == NIL:
            return '[' + ','.join(items) + ']'
        return '[' + ','.join(items) + '|' + show(t) + ']'
    if not t[2]:
        return t[1] + '()'
    return t[1] + '(' + ','.join(show(a) for a in t[2]) + ')'


# ------------------------------------------------------------------------------------
# engine side

def build(yp, t, vmap):
    """model term -> engine term.  vmap: model variable index -> engine Variable
    (extended with fresh engine variables on demand)"""
    k = t[0]
    if k == 'v':
        v = vmap.get(t[1])
        if v is None:
            v = vmap[t[1]] = yp.variable()
        return v
    if k == 'a':
        return yp.atom(t[1])
    if k in 'is':
        return t[1]
    return yp.functor(t[1], [build(yp, a, vmap) for a in t[2]])


OBS_DEPTH_CAP = 2500        # deeper than any finite term the plans can build (a few 150-deep terms stacked); a cyclic term exceeds any cap


def observe(x, ids, depth=0):
    """engine term -> model term, dereferencing through the public get_value at every
    node.  ids: id(Variable) -> model index; unknown variables get fresh indices
    >= 1000000 in order of first occurrence (stored in ids['next'])."""
    from yldprolog.engine import Variable, Atom, Functor, get_value
    if depth > OBS_DEPTH_CAP:
        raise TooDeep()
    if isinstance(x, Variable):
        # variables are dereferenced through the public get_value; compound terms are walked argument by argument
        # (get_value of a compound term returns a resolved *copy* of the whole term: calling it at every node would
        # make the observer quadratic and adds nothing to walking the arguments)
        x = x.get_value()
    if isinstance(x, Variable):
        # get_value may legitimately stop at an unbound variable only
        i = ids.get(id(x))
        if i is None:
            i = ids['next'] = ids.get('next', 1000000) + 1
            ids[id(x)] = i
        return ('v', i)
    if isinstance(x, Atom):
        return ('a', x.name())
    if isinstance(x, Functor):
        return ('f', x._name, tuple(observe(a, ids, depth + 1) for a in x._args))
    if isinstance(x, bool):
        return ('s', repr(x))
    if isinstance(x, (int, float)) or x is None:
        return ('i', x)
    if isinstance(x, str):
        return ('s', x)
    return ('s', 'PY:' + type(x).__name__)


def observe_canon(xs):
    """canonical observation of a tuple of engine terms: variables are numbered by first
    occurrence over the whole tuple (one shared numbering, so aliasing between the terms shows)"""
    ids = {}
    return canon([observe(x, ids) for x in xs])


def raw_state(v):
    """binding state of one engine variable as seen through the public get_value:
    None if unbound (get_value returns the variable itself)"""
    g = v.get_value()
    return None if g is v else g


# ------------------------------------------------------------------------------------
# seeded generators (pure functions of the rng)

ATOMS = ('a', 'b', 'ab', '1', 'x y', '', '[]')
INTS = (0, 1, None, 2.5)        # Python constants of kind 'i': ints, a float and None (all JSON-native)
STRS = ('a', '1', 'x y')
FUNCTORS = ('f', 'g', 'fg')


def rnd_leaf(rng, nv, p_var=0.5):
    k = rng.random()
    if nv and k < p_var:
        return ('v', rng.randrange(nv))
    if k < p_var + 0.3:
        return ('a', rng.choice(ATOMS))
    if k < p_var + 0.42:
        return ('i', rng.choice(INTS))
    return ('s', rng.choice(STRS))


def rnd_term(rng, nv, depth, p_leaf=0.35, p_var=0.5, lists=True):
    if depth == 0 or rng.random() < p_leaf:
        return rnd_leaf(rng, nv, p_var)
    if lists and rng.random() < 0.2:
        n = rng.choice((0, 1, 2, 2, 3))
        items = [rnd_term(rng, nv, depth - 1, p_leaf, p_var, lists) for _ in range(n)]
        tail = NIL
        if rng.random() < 0.3:
            tail = rnd_leaf(rng, nv, 0.8)
        return mklist(items, tail)
    n = rng.choice((0, 1, 2, 2, 3))
    return ('f', rng.choice(FUNCTORS), tuple(rnd_term(rng, nv, depth - 1, p_leaf, p_var, lists) for _ in range(n)))


def big_leaves(rng, nv, n=None, p_var=0.12):
    """leaves of a big term: mostly atoms, a few variables, the last two more often variables"""
    n = n or rng.choice((13, 14, 20, 26, 33, 34, 41, 65, 66, 70, 101, 130))
    out = [rnd_leaf(rng, nv, p_var) for _ in range(n)]
    for i in (n - 1, n - 2):
        if rng.random() < 0.5:
            out[i] = ('v', rng.randrange(nv))
    return out


def build_big(kind, leaves):
    """'list': [l1,...,ln]; 'open': [l1,...,ln-1|ln]; 'wide': fw(l1,...,ln); 'nest': g2(ln, g2(ln-1, ... l1))"""
    if kind == 'list':
        return mklist(leaves)
    if kind == 'open':
        return mklist(leaves[:-1], leaves[-1])
    if kind == 'wide':
        return ('f', 'fw', tuple(leaves))
    t = leaves[0]
    for x in leaves[1:]:
        t = ('f', 'g2', (x, t))
    return t


def big_pair(rng, nv, kind=None, n=None):
    """two big terms of the same shape that differ in 0-2 leaves, mostly near the end (so that a clash, if any,
    comes after many successful element unifications and after variables have been bound)"""
    kind = kind or rng.choice(('list', 'list', 'open', 'wide', 'nest'))
    l1 = big_leaves(rng, nv, n)
    if kind == 'wide' and len(l1) > 70:
        l1 = l1[:70]
    l2 = list(l1)
    n = len(l1)
    for _ in range(rng.choice((0, 1, 1, 2, 3))):
        i = rng.choice((n - 1, n - 1, n - 2, n - 3, rng.randrange(n), rng.randrange(n)))
        l2[i] = rnd_leaf(rng, nv, 0.4)
    if rng.random() < 0.3:
        # a variable somewhere in the first half of one side, so that it gets bound long before a clash
        i = rng.randrange(max(1, n // 2))
        (l1 if rng.random() < 0.5 else l2)[i] = ('v', rng.randrange(nv))
    if kind == 'nest':
        l1.reverse()
        l2.reverse()           # innermost = last visited
    return build_big(kind, l1), build_big(kind, l2)


def mutate(rng, t, nv, depth):
    """a term 'near' t, so that about half of the generated pairs unify"""
    if rng.random() < 0.2:
        return rnd_term(rng, nv, max(depth, 0))
    if t[0] == 'f':
        args = tuple(mutate(rng, a, nv, depth - 1) for a in t[2])
        k = rng.random()
        if k < 0.04 and args:
            args = args[:-1]                      # same name, other arity
        elif k < 0.08:
            args = args + (rnd_leaf(rng, nv),)
        elif k < 0.12:
            return ('f', rng.choice([n for n in FUNCTORS if n != t[1]]), args)
        return ('f', t[1], args)
    if rng.random() < 0.3 and nv:
        return ('v', rng.randrange(nv))
    return t
