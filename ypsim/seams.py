"""Seams the simulator owns without touching the repository's sources
(DESIGN.md 3.1): variable registry, query monitor, fake file system, unraisable hook."""
import sys, io
from . import terms as TM


class Sim:
    """per-run simulator state shared by the seams"""

    def __init__(self):
        self.reg = []            # every engine Variable ever created, in creation order (strong refs)
        self.idx = {}            # id(var) -> registry index
        self.live = []           # names of query generators that have started and not ended
        self.nested_violations = []
        self.unraisable = []
        self.monitor = True
        self.cyclic = False
        self.max_live = 0
        self._orig_init = None

    # ---- registry
    def install_registry(self):
        """wraps Variable.__init__ (in this process only; runs are forked)"""
        import yldprolog.engine as E
        sim = self
        orig = E.Variable.__init__
        self._orig_init = orig

        def init(v, *a, **kw):
            orig(v, *a, **kw)
            sim.idx[id(v)] = len(sim.reg)
            sim.reg.append(v)
        E.Variable.__init__ = init

        def hook(u):
            sim.unraisable.append(type(u.exc_value).__name__)
        sys.unraisablehook = hook

    def state_of(self, v):
        g = v.get_value()
        if g is v:
            return None
        return TM.observe(g, self.idx)

    def snapshot(self):
        return [self.state_of(v) for v in self.reg]

    def bound_count(self):
        n = 0
        for v in self.reg:
            if v.get_value() is not v:
                n += 1
        return n

    def restored(self, snap):
        """True iff every variable that existed at `snap` has the state it had then and
        every variable created since is unbound"""
        n = len(snap)
        for i, v in enumerate(self.reg):
            st = self.state_of(v)
            if i < n:
                if st != snap[i]:
                    return False
            elif st is not None:
                return False
        return True

    def first_difference(self, snap):
        n = len(snap)
        for i, v in enumerate(self.reg):
            st = self.state_of(v)
            want = snap[i] if i < n else None
            if st != want:
                return {'variable': i, 'created_before_start': i < n,
                        'expected': None if want is None else TM.show(want), 'found': None if st is None else TM.show(st)}
        return None


def make_simyp(sim):
    """a YP subclass whose query() is monitored: every query generator - the nested ones
    made by compiled code, call/N, findall, \\= included - snapshots the registry when
    it starts and compares on its exhaustion path (yield from forwards close/throw)."""
    from yldprolog.engine import YP

    class SimYP(YP):
        def query(self, name, args):
            if not sim.monitor:
                # hand out exactly the object the engine returns: a wrapper generator would turn a consumer's
                # *drop* into a close() of that object (`yield from` closes its sub-iterator)
                return super().query(name, args)
            return self._monitored_query(name, args)

        def _monitored_query(self, name, args):
            try:
                snap = sim.snapshot()
            except (RecursionError, TM.TooDeep):
                # a cyclic term exists (built by `=` without occurs check: unspecified behaviour); observing it
                # cannot terminate.  The monitor must never raise into the engine: stand aside and flag the run.
                sim.cyclic = True
                yield from YP.query(self, name, args)
                return
            sim.live.append(name)
            if len(sim.live) > sim.max_live:
                sim.max_live = len(sim.live)
            exhausted = False
            try:
                yield from YP.query(self, name, args)
                exhausted = True
            finally:
                # remove the innermost entry with this name (teardown order on close is CPython's business)
                for i in range(len(sim.live) - 1, -1, -1):
                    if sim.live[i] == name:
                        del sim.live[i]
                        break
                if exhausted:
                    try:
                        if not sim.restored(snap):
                            sim.nested_violations.append((name, len(args), sim.first_difference(snap)))
                    except (RecursionError, TM.TooDeep):
                        sim.cyclic = True
    return SimYP


class FakeFS:
    """in-memory replacement for `open` as seen by yldprolog.engine only"""

    def __init__(self):
        self.files = {}          # name -> text | ('raise', exception type name)
        self.opened = []

    def install(self):
        import yldprolog.engine as E
        E.open = self.open

    def open(self, fn, mode='r', *a, **kw):
        self.opened.append(str(fn))
        if fn not in self.files:
            raise FileNotFoundError(2, 'No such file or directory', str(fn))
        c = self.files[fn]
        if isinstance(c, tuple):
            if c[1] == 'PermissionError':
                raise PermissionError(13, 'Permission denied', str(fn))
            if c[1] == 'IsADirectoryError':
                raise IsADirectoryError(21, 'Is a directory', str(fn))
            if c[1] == 'UnicodeDecodeError':
                return _BadRead()
            raise OSError(5, 'Input/output error', str(fn))
        return io.StringIO(c)


class _BadRead(io.StringIO):
    def read(self, *a):
        raise UnicodeDecodeError('utf-8', b'\xff', 0, 1, 'invalid start byte')
