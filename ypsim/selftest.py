"""Determinism self-test (DESIGN.md 7.1): for every claimed property, S runs x
{twice in this process (separate forks); fresh interpreter, 1 worker, another string-hash
seed; fresh interpreter, 16 workers, a third hash seed} -> identical event-log digests."""
import os, sys, json, time
from . import core


def determinism(claimed, tier, verif_seed, load, n=None):
    n = n or int(os.environ.get('YPSIM_SELFTEST_SEEDS', '0')) or (8 if tier == 'quick' else 200)
    bad = 0
    for prop in claimed:
        t0 = time.time()
        mod = load(prop)
        if hasattr(mod, 'prewarm'):
            mod.prewarm()
        idxs = list(range(n))
        a = core.digests_only(mod, prop, verif_seed, tier, idxs)
        b = core.digests_only(mod, prop, verif_seed, tier, idxs)
        c = core.fresh_interpreter_digests(prop, verif_seed, tier, idxs, 1, hashseed=7919)
        d = core.fresh_interpreter_digests(prop, verif_seed, tier, idxs, 16, hashseed=104729)
        diff = [i for i in idxs if not (a[i] == b[i] == c.get(i) == d.get(i))]
        print('%s: %d seeds x 4 executions, %d differing %s (%.1fs)' % (prop, n, len(diff), diff[:5], time.time() - t0), flush=True)
        bad += len(diff)
    if bad:
        print('HARNESS-ERROR NONDETERMINISM in %d runs' % bad)
        return core.EXIT_HARNESS
    print('determinism self-test OK')
    return core.EXIT_OK
