"""Seeded generators of Prolog programs (source text + fact tables + natives).

A *world* is JSON:
  {'facts':  [[name, arity, [row, ...]], ...]      row = list of JSON model terms; variables
                                                  ('v', i) are local to the row
   'rules':  [clause text, ...]                    layered: rule predicates call only lower layers
   'native': [[name, arity, style, yield_value], ...]   fact predicates supplied as Python generators
   'dynamic': [[name, arity, n_extra_rows], ...]   predicates that also get dynamic facts
   'query':  [name, [arg, ...]]                    args: JSON model terms over query variables
   'prebind': [[t1, t2], ...]                      unifications held open while the query runs
  }
Searches are finite by construction: rules call strictly lower layers, except the fixed
recursive idioms (member/append over proper lists), which recurse on a shrinking list.
"""
import re
from . import terms as TM

VARNAMES = 'XYZWLABCDEFGH'


def render(t, names=None):
    """model term -> Prolog source text"""
    t = TM.T(t) if isinstance(t, list) else t
    if t[0] == 'v':
        if names is not None:
            return names.setdefault(t[1], VARNAMES[len(names) % len(VARNAMES)] + ('' if len(names) < len(VARNAMES) else str(len(names))))
        return 'V%d' % t[1]
    if t[0] == 'a':
        n = t[1]
        if n == '[]':
            return '[]'
        return n if (n[:1].islower() and n.replace('_', 'a').isalnum()) else "'%s'" % n
    if t[0] == 'i':
        return str(t[1])
    if t[0] == 's':
        raise ValueError('strings have no source form')
    if t[1] == '.' and len(t[2]) == 2:
        items = []
        while t[0] == 'f' and t[1] == '.' and len(t[2]) == 2:
            items.append(render(t[2][0], names))
            t = t[2][1]
        if t == TM.NIL:
            return '[' + ','.join(items) + ']'
        return '[' + ','.join(items) + '|' + render(t, names) + ']'
    return t[1] + '(' + ','.join(render(a, names) for a in t[2]) + ')'


def fact_source(name, rows):
    out = []
    for ri, row in enumerate(rows):
        names = {}      # variables are local to the row
        if row:
            text = '%s(%s).' % (name, ','.join(render(x, names) for x in row))
            if ri % 2 and names:
                # every other row spells its variables with a leading underscore (named variables like any other)
                for vn in sorted(set(names.values()), key=len, reverse=True):
                    text = re.sub(r'\b%s\b' % vn, '_' + vn, text)
            out.append(text)
        else:
            out.append('%s.' % name)
    return '\n'.join(out)


# the fixed library of fact predicates (rows use row-local variables)
V0, V1 = ['v', 0], ['v', 1]
A = lambda n: ['a', n]
I = lambda n: ['i', n]
F = lambda n, *a: ['f', n, list(a)]
LST = lambda *xs: TM.J(TM.mklist([TM.T(x) for x in xs]))

FACT_LIBRARY = {
    ('q', 1): [[A('a')], [A('b')]],
    ('r', 1): [[I(1)], [I(2)]],
    ('s', 2): [[A('a'), I(1)], [A('b'), I(2)], [A('c'), I(3)], [V0, V0]],
    ('t', 3): [[V0, F('g', V0, V1), V1], [A('a'), A('b'), A('c')]],
    ('u', 1): [[LST(A('a'), V0)], [LST()], [F('f', V0)]],
    ('e', 0): [[]],
    ('z', 1): [],
    # facts that hold goals (ground compound terms are shared, not copied, by every use of the fact)
    ('k', 1): [[F('s', A('a'))], [F('q')], [A('q')], [F('s', V0)]],
}

RECURSIVE_IDIOMS = [
    'm(X,[X|_]).',
    'm(X,[_|T]) :- m(X,T).',
    'app([],L,L).',
    'app([H|T],L,[H|R]) :- app(T,L,R).',
    # lnk(N,X,Y): X and Y end up aliased through a chain of 2*N+1 variable-to-variable links
    'eq(X,X).',
    'lnk(z,X,X).',
    'lnk(s(N),X,Y) :- eq(X,Z), lnk(N,Z,Y).',
]


def rnd_fact_rows(rng, arity):
    rows = []
    for _ in range(rng.randrange(0, 4)):
        row = []
        for _ in range(arity):
            k = rng.random()
            if k < 0.2:
                row.append(['v', rng.randrange(2)])
            elif k < 0.3:
                row.append(TM.J(TM.rnd_term(rng, 2, 2, p_var=0.3)))
            elif k < 0.7:
                row.append(A(rng.choice('abc')))
            else:
                row.append(I(rng.choice((1, 2, 3))))
        row = [x if x[0] != 's' else A('a') for x in row]
        rows.append(_no_strings(row))
    return rows


def _no_strings(x):
    if isinstance(x, list):
        if x and x[0] == 's':
            return ['a', 'a']
        return [_no_strings(y) for y in x]
    return x


class BodyGen:
    """random clause bodies over a set of callable leaves"""

    def __init__(self, rng, callable_preds, variables, rich=True):
        self.rng = rng
        self.preds = callable_preds      # list of (name, arity)
        self.vars = variables
        self.rich = rich
        self.lookalikes = False

    def arg(self):
        rng = self.rng
        k = rng.random()
        if k < 0.55:
            return rng.choice(self.vars)
        if k < 0.65:
            return '_'
        if k < 0.8:
            return rng.choice('abc')
        if k < 0.88:
            return str(rng.choice((1, 2, 3)))
        if k < 0.93:
            return 'f(%s)' % rng.choice(self.vars)
        if self.lookalikes and k < 0.97:
            # compound terms whose printed forms collide: a quoted atom spelled like a variable, atoms spelled
            # like the compiler's internal names for anonymous variables
            v = rng.choice(self.vars)
            return rng.choice(["pair('%s',%s)" % (v, rng.choice(self.vars)), 'pair(%s,%s)' % (v, rng.choice(self.vars)),
                               'pair(x1,_)', 'pair(_,x2)', "[x1,'%s']" % v, '[_,%s]' % v])
        return '[%s|%s]' % (rng.choice(self.vars + ['a']), rng.choice(self.vars))

    def call(self):
        name, ar = self.rng.choice(self.preds)
        if ar == 0:
            return name
        return '%s(%s)' % (name, ','.join(self.arg() for _ in range(ar)))

    def leaf(self):
        rng = self.rng
        if getattr(self, 'lookalikes', False) and rng.random() < 0.04:
            # the control constructs spelled as quoted atoms (ordinary arity-0 goals), and a numeral as an argument
            return rng.choice(["'true'", "'!'", 'foo(0)', 'foo(00)'])
        k = rng.random()
        v = self.vars
        if k < 0.5:
            return self.call()
        if k < 0.56:
            return 'true'
        if k < 0.62:
            return '!'
        if k < 0.7:
            return '%s = %s' % (rng.choice(v), self.arg())
        if k < 0.76:
            return '%s \\= %s' % (rng.choice(v), self.arg())
        if not self.rich:
            return self.call()
        if k < 0.81:
            return 'once(%s)' % self.call()
        if k < 0.86:
            name, ar = rng.choice([p for p in self.preds if p[1] >= 1] or [('q', 1)])
            args = [self.arg() for _ in range(ar)]
            return 'call(%s)' % ','.join([name if ar == 1 else '%s(%s)' % (name, ','.join(args[:-1]))] + args[-1:])
        if k < 0.915:
            return 'findall(%s,%s,%s)' % (rng.choice(v), self.call(), rng.choice(v))
        if k < 0.945:
            # a goal fetched from a fact and called with extra arguments (the goal term outlives the call)
            return 'k(%s), call(%s,%s)' % ((rng.choice(v),) * 2 + (rng.choice(v),))
        if k < 0.955:
            return 'm(%s,[%s,b,%s])' % (rng.choice(v), rng.choice(v), rng.choice(v))
        if k < 0.975:
            return 'lnk(%s,%s,%s)' % (rng.choice(['s(s(z))', 's(s(s(s(s(z)))))', 's(s(s(s(s(s(s(z)))))))']), rng.choice(v), rng.choice(v))
        return 'app(%s,%s,[a,%s])' % (rng.choice(v), rng.choice(v), rng.choice(v))

    def body(self, d):
        rng = self.rng
        if d == 0 or rng.random() < 0.3:
            return self.leaf()
        k = rng.random()
        if k < 0.45:
            return '%s, %s' % (self.body(d - 1), self.body(d - 1))
        if k < 0.6:
            return '(%s ; %s)' % (self.body(d - 1), self.body(d - 1))
        if k < 0.75:
            return '(%s -> %s ; %s)' % (self.body(d - 1), self.body(d - 1), self.body(d - 1))
        if k < 0.82:
            return '(%s -> %s)' % (self.body(d - 1), self.body(d - 1))
        if k < 0.92:
            return '\\+ %s' % self.body(d - 1)
        return '(%s)' % self.body(d - 1)


HEAD_SHAPES_2 = ['{p}(X,Y)', '{p}(X,Y)', '{p}(X,Y)', '{p}(f(X),Y)', '{p}(X,X)', '{p}([X|T],Y)', '{p}(_,Y)', '{p}(X,a)', '{p}(X,g(Y,Z))']
HEAD_SHAPES_1 = ['{p}(X)', '{p}(X)', '{p}(f(X))', '{p}([X|Y])', '{p}(a)', '{p}(_)']


def gen_world(rng, rich=True, natives=True, max_depth=3):
    """a seeded world for C03 / C20"""
    facts = []
    lib = list(FACT_LIBRARY.items())
    for (name, ar), rows in lib:
        if rng.random() < 0.25 and ar > 0:
            rows = rnd_fact_rows(rng, ar)
        facts.append([name, ar, rows])
    # size-dependent paths: one predicate with many facts (compiled or dynamic), called twice in one clause with
    # bound first arguments; or one predicate of arity 13
    bulk = None
    if rng.random() < 0.1:
        bn, ba = rng.choice([('s', 2), ('q', 1), ('t', 3), ('r', 1)])
        bulk = [bn, ba, rng.choice((26, 34, 40, 70)), rng.choice(('dynamic', 'compiled'))]
        if bulk[3] == 'compiled':
            for f_ in facts:
                if (f_[0], f_[1]) == (bn, ba):
                    rows_ = list(f_[2])
                    for i_ in range(bulk[2]):
                        row_ = [A('abc'[i_ % 3])] + [A('r%d' % i_)] * (ba - 1)
                        if i_ % 11 == 5:
                            row_ = [V0] * ba if ba > 1 else [F('f', V0)]      # a non-ground row in the middle
                        rows_.insert(rng.randrange(len(rows_) + 1) if i_ < 3 else len(rows_), row_)
                    f_[2] = rows_
    wide = rng.random() < 0.06
    if wide:
        facts.append(['wd', 13, [[A('a')] + [A('m%d' % j) for j in range(11)] + [A('b')], [V0] + [A('x')] * 11 + [V0], [A('c')] + [V1] * 11 + [I(1)]]])
    leaves = [(n, a) for n, a, _ in facts if n != 'wd']
    rules = []
    # layer 1: helper predicates h1/2, h2/1 over the leaves ; layer 2: p/2 over everything below
    layers = [[('h1', 2), ('h2', 1)], [('p', 2)]]
    callable_preds = list(leaves)
    if natives and rng.random() < 0.5:
        callable_preds.append(('n', 1))        # a native-only predicate (no compiled twin)
    for layer in layers:
        defined = []
        for (name, ar) in layer:
            ncl = rng.choice((1, 2, 2, 3)) if name == 'p' else rng.choice((0, 1, 2))
            for _ in range(ncl):
                head = rng.choice(HEAD_SHAPES_2 if ar == 2 else HEAD_SHAPES_1).format(p=name)
                vs = ['X', 'Y', 'Z', 'W'] if ar == 2 else ['X', 'Y', 'W']
                bg = BodyGen(rng, callable_preds, vs, rich)
                depth = rng.randrange(0, max_depth + 1)
                if rng.random() < 0.1:
                    rules.append('%s.' % head)
                else:
                    rules.append('%s :- %s.' % (head, bg.body(depth)))
            if ncl:
                defined.append((name, ar))
        callable_preds = callable_preds + defined
    if rng.random() < 0.1:
        # a clause that puts a query variable at the head of a long alias chain whose far end is then
        # bound several times (reads of the head between the answers must stay side-effect free)
        depth = rng.choice(['s(s(s(s(z))))', 's(s(s(s(s(z)))))', 's(s(s(s(s(s(s(s(z))))))))'])
        tail = rng.choice(['q(W)', 'r(W)', 's(W,Y)', 's(Y,W)', 'm(W,[a,b,c])', '(W = a ; W = b)'])
        rules.insert(rng.randrange(len(rules) + 1), 'p(X,Y) :- lnk(%s,X,W), %s.' % (depth, tail))
    if rng.random() < 0.15:
        # clauses whose body goals have anonymous variables in positions where the facts differ: each `_`
        # must be a fresh variable in every activation (overlapping activations must not see each other's)
        rules.insert(rng.randrange(len(rules) + 1), rng.choice([
            'p(X,Y) :- s(_,Y).', 'p(X,Y) :- t(_,X,_), q(Y).', 'p(X,Y) :- s(X,_), s(_,Y).', 'h2(X) :- s(_,X).',
            'p(X,Y) :- q(_), r(Y), s(X,_).', 'h1(X,Y) :- t(X,_,Y).']))
    if bulk:
        bn, ba = bulk[:2]
        rules.insert(rng.randrange(len(rules) + 1), {('s', 2): 'p(X,Y) :- s(a,X), s(b,Y).', ('q', 1): 'p(X,Y) :- q(X), q(Y).',
                                                      ('t', 3): 'p(X,Y) :- t(a,X,_), t(b,_,Y).', ('r', 1): 'p(X,Y) :- r(X), r(Y).'}[(bn, ba)])
    if wide:
        rules.insert(rng.randrange(len(rules) + 1), 'p(X,Y) :- wd(X,%sY).' % ('_,' * 11))
    native = []
    if natives:
        for n, a, rows in facts:
            if n == 'wd':
                if rng.random() < 0.6:
                    native.append([n, a, rng.choice(['inferred', 'explicit', 'variadic', 'explicit-varargs', 'decorated']), rng.random() < 0.5])
                continue
            if rng.random() < 0.35:
                styles = ['inferred', 'explicit', 'variadic', 'decorated', 'prebuilt', 'explicit-varargs', 'delegate', 'partial', 'bound-method', 'callable-object', 'prebuilt-foreign']
                if n == 'k':
                    styles += ['prebuilt'] * 4
                native.append([n, a, rng.choice(styles), rng.random() < 0.5])
    dynamic = []
    if bulk and bulk[3] == 'dynamic':
        dynamic.append([bulk[0], bulk[1], bulk[2]])
    for n, a, rows in facts:
        if n == 'wd' or (bulk and bulk[3] == 'dynamic' and (n, a) == (bulk[0], bulk[1])):
            continue
        if rng.random() < (0.5 if n == 'k' else 0.2):
            dynamic.append([n, a, rng.randrange(1, 3)])
    exotic = bool(dynamic) and rng.random() < 0.3
    if rng.random() < 0.08:
        # the top predicate itself has dynamic facts next to its clauses
        dynamic.append(['p', 2, rng.randrange(1, 3)])
    # query
    qa = []
    for i in range(2):
        k = rng.random()
        if k < 0.7:
            qa.append(['v', i])
        elif k < 0.8:
            qa.append(['v', 0])
        elif k < 0.9:
            qa.append(A(rng.choice('ab')))
        else:
            qa.append(F('f', ['v', i]))
    if rng.random() < 0.06:
        # a goal passed in by the caller and called with an extra argument; the query's argument terms are built
        # once and used for every run, so the goal term outlives each call
        rules.insert(0, 'p(X,Y) :- call(X,Y).')
        qa = [rng.choice([F('s', A('b')), F('q'), F('s', ['v', 0]), F('t', A('a'), ['v', 0])]), ['v', 1]]
    prebind = []
    if rng.random() < 0.3:
        prebind.append([['v', rng.randrange(2)], rng.choice([A('a'), A('b'), F('f', ['v', 2]), ['v', 3], I(1)])])
    return {'facts': facts, 'rules': rules, 'native': native, 'dynamic': dynamic,
            'query': ['p', qa], 'prebind': prebind, 'has_n': ('n', 1) in callable_preds, 'exotic': exotic}


def world_source(world, without=()):
    """Prolog text of a world; `without` = fact predicates left out (supplied natively)"""
    parts = list(world['rules']) + RECURSIVE_IDIOMS
    for name, ar, rows in world['facts']:
        if (name, ar) in without or not rows:
            continue
        parts.append(fact_source(name, rows))
    return '\n'.join(parts) + '\n'


def make_native(yp, unify, rows, arity, style, yield_value, ctl, name=None):
    """a Python generator predicate with the same solutions as the fact table `rows`.
    ctl: dict with 'calls' (invocation counter), 'fault' (None or (j, phase)), 'exc'
    (the exception object to raise), 'args' (log of argument type names per call)."""
    from . import terms as _TM
    if arity > 3 and style in ('bound-method', 'callable-object', 'delegate', 'delegate-bounded'):
        style = 'inferred'          # (those wrappers are written out for arities 0-3 only)
    trows = [[_TM.T(x) for x in row] for row in rows]
    # style 'prebuilt': ground rows are built once, at registration, and reused by every invocation (a Python
    # fact predicate that keeps a table of terms); rows with variables are still built fresh per invocation
    prebuilt = {}
    if style in ('prebuilt', 'prebuilt-foreign'):
        # 'prebuilt-foreign': the table was built with the atoms of another engine instance (atoms are equal by name)
        builder = yp if style == 'prebuilt' else type(yp)()
        for i_, row in enumerate(trows):
            if all(_TM.is_ground(t) for t in row):
                prebuilt[i_] = [_TM.build(builder, t, {}) for t in row]

    def impl(*args):
        ctl['calls'] += 1
        me = ctl['calls']
        ctl['args'].append(tuple(type(a).__name__ for a in args))
        ctl['live'] = ctl.get('live', 0) + 1
        try:
            if ctl['fault'] is not None and tuple(ctl['fault'][:2]) == (me, 'pre'):
                ctl['fired'] = ctl.get('fired', 0) + 1
                raise ctl['exc']
            if len(args) != arity:
                return
            for i_, row in enumerate(trows):
                vmap = {}
                terms = prebuilt[i_] if i_ in prebuilt else [_TM.build(yp, t, vmap) for t in row]

                def rec(i):
                    if i == len(args):
                        yield yield_value
                    else:
                        for _ in unify(args[i], terms[i]):
                            yield from rec(i + 1)
                for v in rec(0):
                    yield v
                    if ctl['fault'] is not None and tuple(ctl['fault'][:2]) == (me, 'resume'):
                        ctl['fired'] = ctl.get('fired', 0) + 1
                        raise ctl['exc']
        finally:
            ctl['live'] -= 1
    if style == 'delegate-bounded' and name is not None:
        # like 'delegate', but the nested query is run to its end by evaluate_bounded first (answers collected as
        # resolved copies), then the predicate unifies its arguments with each collected answer
        import sys as _sys

        def impl_b(*args):
            ctl['calls'] += 1
            me = ctl['calls']
            ctl['args'].append(tuple(type(a).__name__ for a in args))
            ctl['live'] = ctl.get('live', 0) + 1
            try:
                if ctl['fault'] is not None and tuple(ctl['fault'][:2]) == (me, 'pre'):
                    ctl['fired'] = ctl.get('fired', 0) + 1
                    raise ctl['exc']
                fresh = [yp.variable() for _ in args]
                found = yp.evaluate_bounded(yp.query(name + '_impl', fresh), lambda _: [v.get_value() for v in fresh], recursion_limit=_sys.getrecursionlimit())

                def rec(i, row):
                    if i == len(args):
                        yield yield_value
                    else:
                        for _ in unify(args[i], row[i]):
                            yield from rec(i + 1, row)
                for row in found:
                    for v in rec(0, row):
                        yield v
                        if ctl['fault'] is not None and tuple(ctl['fault'][:2]) == (me, 'resume'):
                            ctl['fired'] = ctl.get('fired', 0) + 1
                            raise ctl['exc']
            finally:
                ctl['live'] -= 1
        wr = {0: lambda: impl_b(), 1: lambda a: impl_b(a), 2: lambda a, b: impl_b(a, b), 3: lambda a, b, c: impl_b(a, b, c)}
        return wr[arity], None
    if style == 'delegate' and name is not None:
        # the predicate gets its solutions by running a query of its own on the engine (re-entrant use of the API
        # from inside a user predicate): the facts live in the compiled predicate <name>_impl
        def impl_d(*args):
            ctl['calls'] += 1
            me = ctl['calls']
            ctl['args'].append(tuple(type(a).__name__ for a in args))
            ctl['live'] = ctl.get('live', 0) + 1
            try:
                if ctl['fault'] is not None and tuple(ctl['fault'][:2]) == (me, 'pre'):
                    ctl['fired'] = ctl.get('fired', 0) + 1
                    raise ctl['exc']
                for _ in yp.query(name + '_impl', list(args)):
                    yield yield_value
                    if ctl['fault'] is not None and tuple(ctl['fault'][:2]) == (me, 'resume'):
                        ctl['fired'] = ctl.get('fired', 0) + 1
                        raise ctl['exc']
            finally:
                ctl['live'] -= 1
        wr = {0: lambda: impl_d(), 1: lambda a: impl_d(a), 2: lambda a, b: impl_d(a, b), 3: lambda a, b, c: impl_d(a, b, c)}
        return wr[arity], None
    if style == 'variadic':
        return impl, -1
    if style == 'explicit-varargs':
        # a generic `def facts(*args)` registered under an explicit arity (also 0)
        return impl, arity
    wrappers = {0: lambda: impl(), 1: lambda a: impl(a), 2: lambda a, b: impl(a, b), 3: lambda a, b, c: impl(a, b, c)}
    if arity > 3:
        ps_ = ','.join('a%d' % i for i in range(arity))
        wrappers[arity] = eval('lambda %s: impl(%s)' % (ps_, ps_), {'impl': impl})
    if style in ('partial', 'bound-method', 'callable-object'):
        # the same predicate handed to register_function as another kind of callable (arity still inferable)
        import functools
        f0 = wrappers[arity]
        if style == 'partial':
            return functools.partial(f0), None

        class Holder:
            def m0(self):
                return f0()

            def m1(self, a):
                return f0(a)

            def m2(self, a, b):
                return f0(a, b)

            def m3(self, a, b, c):
                return f0(a, b, c)

            def __call__(self, *a):
                return f0(*a)
        if style == 'bound-method':
            return getattr(Holder(), 'm%d' % arity), None
        return Holder(), arity          # a callable object (explicit arity: its __call__ takes *args)
    if style == 'decorated':
        # an ordinary functools.wraps decorator around the predicate; its arity is inferred through __wrapped__
        import functools

        def traced(f):
            @functools.wraps(f)
            def wrapper(*a, **kw):
                yield from f(*a, **kw)
            return wrapper
        return traced(wrappers[arity]), None
    return wrappers[arity], (None if style in ('inferred', 'prebuilt', 'prebuilt-foreign') else arity)


# ------------------------------------------------------------------------------------
# syntactic variety for the compiler-determinism check (programs are never run)

def gen_compile_program(rng, big=False):
    preds = [(rng.choice(['p', 'q', 'r', 'foo', 'bar_baz', 'x1']), rng.randrange(0, 4)) for _ in range(rng.randrange(2, 6))]
    if rng.random() < 0.15:
        # a predicate with 9-12 arguments
        preds[rng.randrange(len(preds))] = (rng.choice(['wide', 'p', 'foo']), rng.randrange(9, 13))
    if big:
        # many predicates (size-dependent paths of the code generator: buffers, pools, tables)
        preds = [('%s%d' % (rng.choice(['p', 'q', 'foo', 'bar_baz']), i), rng.randrange(0, 4)) for i in range(rng.choice((26, 33, 34, 41, 48)))]
    clauses = []
    for ci in range(len(preds) + rng.randrange(0, 6) if big else rng.randrange(1, 9)):
        name, ar = preds[ci] if big and ci < len(preds) else rng.choice(preds)
        nvars = rng.randrange(2, 8)
        vs = rng.sample(['X', 'Y', 'Z', 'W', 'L', 'Acc', 'Head', 'Tail', 'N1', 'Result', 'A', 'B', '_G', 'Xs'], nvars)
        if rng.random() < 0.12:
            # legal Prolog variables that are spelled like Python keywords / names the generated code uses itself
            vs[rng.randrange(len(vs))] = rng.choice(['None', 'True', 'False', 'YP', 'Arg1', '__class__'])
        bg = BodyGen(rng, preds, vs, rich=True)
        bg.lookalikes = True
        hargs = []
        for _ in range(ar):
            k = rng.random()
            if k < 0.5:
                hargs.append(rng.choice(vs))
            elif k < 0.6:
                hargs.append('_')
            elif k < 0.75:
                hargs.append('f(%s,%s)' % (rng.choice(vs), rng.choice(vs + ['_'])))
            elif k < 0.85:
                hargs.append('[%s|%s]' % (rng.choice(vs), rng.choice(vs)))
            else:
                hargs.append(rng.choice(['a', '[]', '42', "'hello world'", '0', '00', '1', '007', "'true'", "'[]'", "''"]))
        head = name if ar == 0 else '%s(%s)' % (name, ','.join(hargs))
        if rng.random() < 0.15:
            clauses.append('%s.' % head)
        else:
            clauses.append('%s :- %s.' % (head, bg.body(rng.randrange(0, 2 if big else 4))))
    return '\n'.join(clauses) + '\n'


_PREWARMED = False


def prewarm_compiler(n=60):
    """compiles a fixed corpus in the zygote so that forked runs inherit a warm ANTLR DFA
    cache (speed only: the cache never changes what a parse returns)"""
    global _PREWARMED
    if _PREWARMED:
        return
    import io, random, contextlib
    from yldprolog.compiler import compile_prolog_from_string
    rng = random.Random(20260927)
    for i in range(n):
        src = world_source(gen_world(rng)) if i % 3 else gen_compile_program(rng)
        try:
            with contextlib.redirect_stderr(io.StringIO()):
                compile_prolog_from_string(src)
        except Exception:
            pass
    _PREWARMED = True


def unquoted_twin(text):
    """a different program that *prints* like `text` in places: quoted atoms spelled like variables become
    variables (returns None if there is nothing to unquote)"""
    import re
    twin = re.sub(r"'([A-Z_][A-Za-z0-9_]*)'", r"\1", text)
    return twin if twin != text else None


def syntax_error_variant(rng, text):
    """`text` with a syntax error in its first clause (ANTLR reports it on stderr and recovers as well as it can)"""
    first = text.split('\n')[0]
    if ' :- ' not in first:
        return None
    kind = rng.choice(('lost-paren', 'double-neck', 'stray-token'))
    if kind == 'lost-paren' and ')' in first:
        i = first.rindex(')')
        return first[:i] + first[i + 1:] + '\n'
    if kind == 'double-neck':
        return first.replace(' :- ', ' :- :- ', 1) + '\n'
    return first[:-1] + ' ] .\n'


def failing_variant(rng, text):
    """a program that makes the compiler raise while it is in the middle of a clause that uses the variable
    names of `text` (kinds: goal that is a bare variable -> CompilerError; body ending in `, fail` -> crash in the
    code generator; the unimplemented name/arity term -> crash while the clause is being translated)"""
    first = text.split('\n')[0]
    if ' :- ' not in first:
        return None
    head, body = first[:-1].split(' :- ', 1)
    kind = rng.choice(('bare-variable-goal', 'comma-fail', 'name-arity-term'))
    if kind == 'bare-variable-goal':
        import re
        m = re.search(r'\b[A-Z][A-Za-z0-9_]*\b', head + ' ' + body)
        return '%s :- %s, %s.\n' % (head, body, m.group(0) if m else 'X')
    if kind == 'comma-fail':
        return '%s :- %s, fail.\n' % (head, body)
    return '%s :- %s, exported(leg/2).\n' % (head, body)
