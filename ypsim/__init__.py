"""ypsim - deterministic simulation with fault injection for timhemel/yldprolog.

See /verif/DESIGN.md.  Import `ypsim.core` first: it pins the interpreter's hash
seed (re-exec) and puts the repository under test on sys.path.
"""
