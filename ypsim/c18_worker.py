"""Worker of the C18 check: a fresh interpreter (its own PYTHONHASHSEED, pid and fake
wall clock) that compiles a history of programs and reports every output.

stdin : {"src": <repo>/src, "clock": [t0, rate], "programs": [text...],
         "history": [[program index, options index], ...], "options": [[fn, parser, generator], ...]}
stdout: {"hashseed": ..., "out": [[program index, options index, outcome, text], ...]}
"""
import sys, os, json, io


def main():
    job = json.loads(sys.stdin.read())
    sys.path.insert(0, job['src'])
    # ---- fake wall clock: every read advances it; nothing real leaks through
    import time, datetime
    t0, rate = job['clock']
    state = {'n': 0}

    def now():
        state['n'] += 1
        return t0 + rate * state['n']
    real_localtime, real_gmtime, real_strftime = time.localtime, time.gmtime, time.strftime
    time.time = now
    time.time_ns = lambda: int(now() * 1e9)
    time.monotonic = now
    time.perf_counter = now
    time.localtime = lambda secs=None: real_gmtime(now() if secs is None else secs)
    time.gmtime = lambda secs=None: real_gmtime(now() if secs is None else secs)
    time.strftime = lambda fmt, t=None: real_strftime(fmt, real_gmtime(now()) if t is None else t)
    time.ctime = lambda secs=None: time.asctime(real_gmtime(now() if secs is None else secs))
    real_dt, real_date = datetime.datetime, datetime.date

    class FakeDateTime(real_dt):
        @classmethod
        def now(cls, tz=None):
            return real_dt.fromtimestamp(now(), tz or datetime.timezone.utc)

        @classmethod
        def utcnow(cls):
            return real_dt.fromtimestamp(now(), datetime.timezone.utc).replace(tzinfo=None)

        @classmethod
        def today(cls):
            return cls.utcnow()

    class FakeDate(real_date):
        @classmethod
        def today(cls):
            return real_dt.fromtimestamp(now(), datetime.timezone.utc).date()
    datetime.datetime = FakeDateTime
    datetime.date = FakeDate

    fake_pid = job.get('pid', 4242)
    os.getpid = lambda: fake_pid
    os.getppid = lambda: 1

    import yldprolog.compiler as C
    if not os.path.abspath(C.__file__).startswith(os.path.abspath(job['src']) + os.sep):
        raise SystemExit('compiler imported from ' + C.__file__)
    out = []
    import tempfile, shutil
    workdir = tempfile.mkdtemp(prefix='ypsim-c18-')
    os.chdir(workdir)
    stats = {'par_pairs': 0, 'preemptions': 0, 'preemptions_in_compiler_py': 0, 'points': 0}

    def compile_one(pi, oi, own_stderr=True):
        opt = job['options'][oi]
        fn, dbg_parser, dbg_generator = opt[:3]
        fail_at = opt[3] if len(opt) > 3 else None
        # 5th element: how the options object is made ('plain' class, the library's own 'default', a 'subclass' of
        # CompilerContext); 6th: 'string' (compile_prolog_from_string) or 'file' (compile_prolog_from_file on a
        # file prog<N>.pl in the worker's private directory)
        ctxkind = opt[4] if len(opt) > 4 else 'plain'
        via = opt[5] if len(opt) > 5 else 'string'

        class FailingStream(io.StringIO):
            writes = 0

            def write(self, text):
                FailingStream.writes += 1
                if fail_at is not None and FailingStream.writes >= fail_at:
                    raise OSError(28, 'No space left on device')
                return io.StringIO.write(self, text)

        if ctxkind == 'subclass':
            class Ctx(C.CompilerContext):
                debug_filename = bool(fn)
                debug_parser = dbg_parser
                debug_generator = dbg_generator
                outf = FailingStream()
        else:
            class Ctx:
                debug_filename = bool(fn)
                debug_parser = dbg_parser
                debug_generator = dbg_generator
                current_source_file = fn
                outf = FailingStream()
        err = io.StringIO()
        real_err = sys.stderr
        if own_stderr:
            sys.stderr = err            # ANTLR prints recoverable syntax errors there
        try:
            try:
                args = () if ctxkind == 'default' else (Ctx,)
                if via == 'file':
                    path = 'prog%d.pl' % pi
                    with open(path, 'w', encoding='utf8') as f:
                        f.write(job['programs'][pi])
                    text = C.compile_prolog_from_file(path, *args)
                else:
                    text = C.compile_prolog_from_string(job['programs'][pi], *args)
                outcome = 'ok'
            except RecursionError:
                text, outcome = '', 'EXC:RecursionError'
            except Exception as e:
                text, outcome = '', 'EXC:' + type(e).__name__
        finally:
            if own_stderr:
                sys.stderr = real_err
        return [pi, oi, outcome, text, Ctx.outf.getvalue(), err.getvalue()]

    for entry in job['history']:
        if entry[0] != 'par':
            out.append(compile_one(entry[0], entry[1]))
            continue
        # two compilations at the same time, one thread each, pre-empted at seeded source lines of the package
        # (baton passing: exactly one thread runs at a time; the ANTLR runtime runs unpre-empted)
        sys.path.insert(0, os.path.dirname(os.path.dirname(os.path.abspath(__file__))))
        from ypsim.sched import Baton
        import glob
        pkg = os.path.dirname(os.path.abspath(C.__file__))
        files = [f for f in glob.glob(os.path.join(pkg, '*.py')) if os.path.basename(f) not in ('prologParser.py', 'prologLexer.py', 'prologVisitor.py', 'prologListener.py')]
        _, e1, e2, sched_seed = entry
        res = [None, None]
        # one file of the package is the focus of this pair: switches are frequent there (0.3 per line) and rare elsewhere
        focus = os.path.join(pkg, ('compiler.py', 'yp_generator.py', 'yp_prolog_visitor.py')[sched_seed % 3])
        baton = Baton(2, files, seed=sched_seed, p=0.01, p_by_file={focus: 0.3}, max_points=4000000)
        stats.setdefault('focus', {})
        stats['focus'][os.path.basename(focus)] = stats['focus'].get(os.path.basename(focus), 0) + 1
        shared_err = io.StringIO()
        real_err = sys.stderr
        sys.stderr = shared_err
        try:
            ok = baton.run([lambda: res.__setitem__(0, compile_one(e1[0], e1[1], False)), lambda: res.__setitem__(1, compile_one(e2[0], e2[1], False))],
                           first=sched_seed % 2, wall_cap=80.0)
        finally:
            sys.stderr = real_err
        if not ok or baton.errors or None in res:
            raise SystemExit('thread pair stalled or failed: %r' % (baton.errors,))
        stats['par_pairs'] += 1
        stats['preemptions'] += baton.fired
        stats['points'] += baton.points
        stats['preemptions_in_compiler_py'] += baton.in_file.get('compiler.py', 0)
        for r in res:
            out.append(r + ['par'])
    os.chdir('/')
    shutil.rmtree(workdir, ignore_errors=True)
    sys.stdout.write(json.dumps({'hashseed': os.environ.get('PYTHONHASHSEED'), 'out': out, 'stats': stats}))


if __name__ == '__main__':
    main()
