"""Shared executor pieces: generator tasks with true drop semantics, the
binding-stack machine (C02, C13, C15), term simplification for shrinking."""
import weakref
from . import terms as TM


class GenTask:
    """Holds the *only* reference to a generator so that `drop` is a true drop
    (refcount finalisation, no cyclic GC involved)."""

    def __init__(self, gen):
        self.gen = iter(gen)
        self.steps = 0
        self.done = False
        self.not_closable = False

    def step(self):
        """True if the generator yielded, False if it is exhausted"""
        try:
            next(self.gen)
        except StopIteration:
            self.done = True
            return False
        self.steps += 1
        return True

    def close(self):
        if not hasattr(self.gen, 'close'):
            # what YP.query / unify returned cannot be closed: remember it (a verdict for the checks that care) and drop it
            self.not_closable = True
            self.gen = None
            self.done = True
            return
        self.gen.close()
        self.done = True

    def drop(self):
        """drops the last reference; returns True iff the object is gone at once"""
        try:
            w = weakref.ref(self.gen)
        except TypeError:           # YPSuccess / YPFail are plain objects without finaliser duties
            self.gen = None
            self.done = True
            return True
        self.gen = None
        self.done = True
        return w() is None

    def throw(self, exc):
        """returns 'back' if exc came back, 'swallowed' if the generator yielded again,
        'stop' on StopIteration, or ('other', type name)"""
        self.done = True
        if not hasattr(self.gen, 'throw'):
            return 'back'
        try:
            self.gen.throw(exc)
            return 'swallowed'
        except StopIteration:
            return 'stop'
        except BaseException as e:
            if e is exc:
                return 'back'
            return ('other', type(e).__name__)


def end_task(task, mode):
    """ends a suspended task by 'close', 'drop' or 'resume' (step to exhaustion).
    returns a small outcome tuple"""
    if mode == 'close':
        task.close()
        return ('closed',)
    if mode == 'drop':
        return ('dropped', task.drop())
    if mode == 'throw':
        # the consumer throws an exception into the suspended generator; it must come back out
        from .core import Boom
        r = task.throw(Boom('thrown by the consumer'))
        if r != 'back':
            task.close()
        return ('thrown', r if isinstance(r, str) else '/'.join(r))
    extra = 0
    while task.step():
        extra += 1
        if extra > 3:
            task.close()
            break
    return ('resumed', extra)


class Pool:
    """a pool of engine variables addressed by model index 0..n-1"""

    def __init__(self, yp, n):
        self.yp = yp
        self.vars = [yp.variable() for _ in range(n)]

    def newvar(self):
        self.vars.append(self.yp.variable())

    def __len__(self):
        return len(self.vars)

    def norm(self, t):
        """maps variable indices into the pool (plans are closed under deletion)"""
        n = len(self.vars)
        if t[0] == 'v':
            return ('v', t[1] % n)
        if t[0] == 'f':
            return ('f', t[1], tuple(self.norm(a) for a in t[2]))
        return t

    def build(self, t, extra=None):
        vmap = dict(enumerate(self.vars))
        if extra is not None:
            vmap.update(extra)
            r = TM.build(self.yp, t, vmap)
            for k, v in vmap.items():
                if not (isinstance(k, int) and k < len(self.vars)):
                    extra[k] = v
            return r
        return TM.build(self.yp, t, vmap)

    def ids(self):
        return {id(v): i for i, v in enumerate(self.vars)}

    def observe_all(self, also=()):
        ids = self.ids()
        return TM.canon([TM.observe(x, ids) for x in also] + [TM.observe(v, ids) for v in self.vars])

    def model_all(self, s, also=()):
        return TM.canon([TM.resolve(x, s) for x in also] + [TM.resolve(('v', i), s) for i in range(len(self.vars))])


# ------------------------------------------------------------------------------------
# shrinking helpers

def simpler_terms(t):
    """yields strictly simpler JSON terms for a JSON term"""
    if t[0] == 'f':
        yield ['a', 'a']
        for a in t[2]:
            yield a
        for i, a in enumerate(t[2]):
            for s in simpler_terms(a):
                yield ['f', t[1], t[2][:i] + [s] + t[2][i + 1:]]
    elif t[0] in ('i', 's'):
        yield ['a', 'a']
    elif t[0] == 'a' and t[1] != 'a':
        yield ['a', 'a']
    elif t[0] == 'v' and t[1] > 0:
        yield ['v', 0]
        yield ['v', t[1] - 1]


def simplify_ops_terms(plan, term_fields):
    """candidate plans with one term of one op simplified.  term_fields maps op kind ->
    indices of the op list that hold terms"""
    ops = plan['ops']
    for k, op in enumerate(ops):
        for f in term_fields.get(op[0], ()):
            if f < len(op) and isinstance(op[f], list):
                for s in simpler_terms(op[f]):
                    cand = dict(plan)
                    cand['ops'] = ops[:k] + [op[:f] + [s] + op[f + 1:]] + ops[k + 1:]
                    yield cand


# ------------------------------------------------------------------------------------
# depth faults: the interpreter raises RecursionError in the middle of an engine operation

def deep_model_term(kind, n, bottom=('a', 'end')):
    """a model term of depth n: a list of n atoms ending in `bottom`, or n nested w/1 functors around it"""
    t = bottom
    for _ in range(n):
        t = ('f', '.', (('a', 'e'), t)) if kind == 'list' else ('f', 'w', (t,))
    return t


def frame_depth():
    import sys
    f = sys._getframe(1)
    n = 0
    while f is not None:
        n += 1
        f = f.f_back
    return n


class LowRecursionLimit:
    """lowers the interpreter's recursion limit to `extra` frames above the caller for the duration of the
    block (the harness's own code inside the block must stay shallow); always restores the old limit"""

    def __init__(self, extra):
        self.extra = extra

    def __enter__(self):
        import sys
        self.old = sys.getrecursionlimit()
        f = sys._getframe(1)
        n = 0
        while f is not None:
            n += 1
            f = f.f_back
        sys.setrecursionlimit(n + self.extra)
        return self

    def __exit__(self, *a):
        import sys
        sys.setrecursionlimit(self.old)
        return False
