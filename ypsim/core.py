"""Core of the simulator: seeds, event log, fork-per-run isolation, fan-out over
cores, shrinking (ddmin), replay files, known findings, evidence files.

Everything a run does is a pure function of (plan, code under test); a plan is a
pure function of one integer.  See DESIGN.md section 3.
"""
import os, sys, json, time, hashlib, gc, select, signal, traceback, collections, subprocess, random

VERIF_DIR = os.path.dirname(os.path.dirname(os.path.abspath(__file__)))
REPO = os.environ.get('YPSIM_REPO', '/repo')
HASHSEED = os.environ.get('YPSIM_HASHSEED', '0')
RUN_WALL_CAP_S = float(os.environ.get('YPSIM_RUN_WALL_CAP_S', '20'))
FORMAT = 'ypsim-replay-1'

EXIT_OK, EXIT_VIOLATION, EXIT_HARNESS = 0, 1, 2


def bootstrap():
    """Pin the interpreter's string-hash seed (re-exec once) and make the repository
    under test importable.  Called by ./check before anything else is imported."""
    if os.environ.get('PYTHONHASHSEED') != HASHSEED:
        env = dict(os.environ)
        env['PYTHONHASHSEED'] = HASHSEED
        env['PYTHONDONTWRITEBYTECODE'] = '1'
        os.execve(sys.executable, [sys.executable] + sys.argv, env)
    sys.dont_write_bytecode = True
    src = os.path.join(REPO, 'src')
    if src in sys.path:
        sys.path.remove(src)
    sys.path.insert(0, src)
    import yldprolog.engine as E
    if not os.path.abspath(E.__file__).startswith(os.path.abspath(src) + os.sep):
        raise HarnessError('yldprolog imported from %s, not from %s' % (E.__file__, src))
    # the depth of model recursion (observers, model unifier) must never be the limiting factor
    sys.setrecursionlimit(20000)


class HarnessError(Exception):
    pass


class SimFault(BaseException):
    """Base of exceptions the harness itself raises inside a run (line budget, hang
    guard).  Derives from BaseException so that no `except Exception`/`except
    RuntimeError` in the code under test can swallow it."""


class BudgetExceeded(SimFault):
    pass


class Boom(Exception):
    """The exception injected into foreign code (user predicates, projections)."""


class BoomRuntime(RuntimeError):
    """injected; a RuntimeError subclass (engine code that catches RuntimeError must not eat it)"""


class BoomKey(KeyError):
    """injected; a LookupError subclass"""


class BoomValue(ValueError):
    """injected"""


INJECTED = {'Exception': Boom, 'RuntimeError': BoomRuntime, 'KeyError': BoomKey, 'ValueError': BoomValue}
INJECTED_KINDS = ('Exception', 'RuntimeError', 'KeyError', 'ValueError')


# ------------------------------------------------------------------------------------
# seeds

def derive_seed(verif_seed, prop, i):
    h = hashlib.sha256(('%d:%s:%d' % (verif_seed, prop, i)).encode()).digest()
    return int.from_bytes(h[:8], 'big')


def sub_rng(seed, tag):
    h = hashlib.sha256(('%d/%s' % (seed, tag)).encode()).digest()
    return random.Random(int.from_bytes(h[:8], 'big'))


def short_hash(obj):
    return hashlib.sha256(repr(obj).encode()).hexdigest()[:12]


# ------------------------------------------------------------------------------------
# event log

class Log:
    """Append-only event log of one run.  Records are tuples of str/int/None/bool/
    tuples only (no ids, no clock, no floats), so repr() is canonical.  The SHA-256 of
    the log is the run digest."""

    def __init__(self, keep=False):
        self.h = hashlib.sha256()
        self.n = 0
        self.keep = keep
        self.records = []
        self.counters = collections.Counter()
        self.keys = set()
        self.violations = []
        self.lines = 0

    def ev(self, *rec):
        self.n += 1
        if LineBudget.active is not None:
            LineBudget.active.mark()
        self.h.update(repr(rec).encode())
        self.h.update(b'\n')
        if self.keep:
            self.records.append(rec)

    def count(self, name, k=1):
        self.counters[name] += k

    def key(self, obj):
        """registers a distinct non-trivial case, by hash"""
        self.keys.add(short_hash(obj))

    def violation(self, cls, detail, info=None):
        """detail is part of the event log (hence of the digest) and must be a function of
        (plan, code); info carries material that may legitimately vary between
        executions (e.g. text produced by nondeterministic code under test)"""
        self.ev('VIOLATION', cls, detail)
        v = {'class': cls, 'detail': detail}
        if info is not None:
            v['info'] = info
        self.violations.append(v)

    def result(self, discard=None, extra=None):
        r = {
            'violations': self.violations,
            'digest': self.h.hexdigest(),
            'events': self.n,
            'lines': self.lines,
            'counters': dict(self.counters),
            'keys': sorted(self.keys),
            'discard': discard,
        }
        if self.keep:
            r['records'] = [jsonable(x) for x in self.records]
        if extra:
            r.update(extra)
        return r


def jsonable(x):
    if isinstance(x, (tuple, list)):
        return [jsonable(y) for y in x]
    if isinstance(x, dict):
        return {str(k): jsonable(v) for k, v in x.items()}
    if isinstance(x, (str, int, bool)) or x is None:
        return x
    return repr(x)


# ------------------------------------------------------------------------------------
# line tracer: simulated time in executed source lines + deterministic no-progress verdicts

def traced_files():
    import yldprolog.engine as E
    return {E.__file__}


class LineBudget:
    """Counts executed lines of engine code and generated code (file names starting
    with '<sim'); raises BudgetExceeded after `budget` lines.  Deterministic substitute
    for a wall-clock hang detector.  With per_event=True the budget applies to the lines
    executed since the last event-log entry ("no progress within N simulated steps"), not to
    the whole run, whose legitimate length varies by orders of magnitude."""

    active = None

    def __init__(self, budget, files=None, per_event=False):
        self.budget = budget
        self.count = 0
        self.base = 0
        self.per_event = per_event
        self.max_between_events = 0
        self.files = files if files is not None else traced_files()

    def mark(self):
        if self.per_event:
            d = self.count - self.base
            if d > self.max_between_events:
                self.max_between_events = d
            self.base = self.count

    def _global(self, frame, ev, arg):
        fn = frame.f_code.co_filename
        if fn in self.files or fn.startswith('<sim'):
            return self._local
        return None

    def _local(self, frame, ev, arg):
        if ev == 'line':
            self.count += 1
            if self.count - self.base > self.budget:
                raise BudgetExceeded()
        return self._local

    def __enter__(self):
        self._old = sys.gettrace()
        self._outer = LineBudget.active
        if self.per_event:
            LineBudget.active = self
        sys.settrace(self._global)
        return self

    def __exit__(self, *a):
        sys.settrace(self._old)
        LineBudget.active = self._outer
        return False


# ------------------------------------------------------------------------------------
# fresh thread: a call stack whose depth does not depend on how the harness got here

def run_in_fresh_thread(fn, *args):
    """runs fn(*args) on a new thread (large C stack) and waits for it.  CPython counts
    recursion depth per thread, so inside fn the depth of the calling frame is a
    constant of the code, not of the path through the harness (fan-out vs. replay)."""
    import threading
    box = {}

    def target():
        try:
            box['result'] = fn(*args)
        except BaseException as e:
            box['error'] = e
    old = threading.stack_size(128 * 1024 * 1024)
    try:
        t = threading.Thread(target=target)
        t.start()
        t.join()
    finally:
        threading.stack_size(old)
    if 'error' in box:
        raise box['error']
    return box['result']


# ------------------------------------------------------------------------------------
# fork per run

def run_forked(fn, arg, wall_cap=None):
    """Runs fn(arg) in a forked child with gc disabled and returns its JSON result.
    A child that exceeds the wall cap is killed and reported as harness_timeout."""
    wall_cap = wall_cap or RUN_WALL_CAP_S
    r, w = os.pipe()
    pid = os.fork()
    if pid == 0:
        code = 0
        try:
            os.close(r)
            gc.disable()
            try:
                out = fn(arg)
            except BaseException:
                sys.setrecursionlimit(20000)        # the run may have died with a lowered limit in force
                out = {'harness_error': traceback.format_exc()}
            data = json.dumps(out).encode()
            off = 0
            while off < len(data):
                off += os.write(w, data[off:off + 65536])
        except BaseException as e:
            code = 3
            try:
                sys.setrecursionlimit(20000)
                os.write(w, json.dumps({'harness_error': 'child failed outside the run: %r' % (e,)}).encode())
            except BaseException:
                pass
        finally:
            os._exit(code)
    os.close(w)
    chunks = []
    deadline = time.monotonic() + wall_cap
    timed_out = False
    while True:
        left = deadline - time.monotonic()
        if left <= 0:
            timed_out = True
            break
        rd, _, _ = select.select([r], [], [], left)
        if not rd:
            timed_out = True
            break
        c = os.read(r, 1 << 16)
        if not c:
            break
        chunks.append(c)
    os.close(r)
    if timed_out:
        try:
            os.kill(pid, signal.SIGKILL)
        except ProcessLookupError:
            pass
    _, status = os.waitpid(pid, 0)
    if timed_out:
        return {'harness_timeout': True}
    try:
        return json.loads(b''.join(chunks))
    except ValueError:
        return {'harness_error': 'child died without a result (wait status %d)' % status, 'child_signal': status & 0x7f}


# ------------------------------------------------------------------------------------
# fan-out

class Aggregate:
    def __init__(self):
        self.runs = 0
        self.events = 0
        self.lines = 0
        self.counters = collections.Counter()
        self.discards = collections.Counter()
        self.keys = set()
        self.violating = []     # (i, seed, violations, extra)
        self.digests = {}       # i -> digest, only for the self-test subset
        self.harness = []       # harness errors / timeouts (i, seed, what)
        self.max_i = -1

    def add(self, i, seed, res, keep_digest):
        self.runs += 1
        self.max_i = max(self.max_i, i)
        if 'harness_error' in res or 'harness_timeout' in res:
            self.harness.append((i, seed, res.get('harness_error', 'timeout')))
            return
        self.events += res['events']
        self.lines += res.get('lines', 0)
        self.counters.update(res['counters'])
        if res['discard']:
            self.discards[res['discard']] += 1
        self.keys.update(res['keys'])
        if res['violations']:
            extra = {k: res[k] for k in ('schedule',) if k in res}
            extra.update(res.get('schedule_extra', {}))
            self.violating.append((i, seed, res['violations'], extra))
        if keep_digest:
            self.digests[i] = res['digest']

    def merge_batch(self, b):
        self.runs += b['runs']
        self.events += b['events']
        self.lines += b['lines']
        self.counters.update(b['counters'])
        self.discards.update(b['discards'])
        self.keys.update(b['keys'])
        self.violating.extend((v[0], v[1], v[2], v[3]) for v in b['violating'])
        self.digests.update({int(k): v for k, v in b['digests'].items()})
        self.harness.extend(tuple(h) for h in b['harness'])
        self.max_i = max(self.max_i, b['max_i'])

    def to_batch(self):
        return {'runs': self.runs, 'events': self.events, 'lines': self.lines,
                'counters': dict(self.counters), 'discards': dict(self.discards),
                'keys': sorted(self.keys), 'violating': self.violating,
                'digests': self.digests, 'harness': self.harness, 'max_i': self.max_i}


# "no progress": more than this many lines of engine / generated code executed between two entries of the event log
# (legitimate maxima measured over thorough plans: < 1 M for every check)
NO_PROGRESS_LINES = int(os.environ.get('YPSIM_NO_PROGRESS_LINES', '60000000'))
FIRST_WALL_CAP_S = float(os.environ.get('YPSIM_FIRST_WALL_CAP_S', '15'))


def progress():
    """tells the line tracer (if one is active) that the run is making progress, without logging an event"""
    if LineBudget.active is not None:
        LineBudget.active.mark()


def run_plan(mod, plan):
    """executes a plan; with plan['_line_budget'] set, under the line tracer, turning
    'the engine does not come back' into the deterministic violation no-progress"""
    lb = plan.get('_line_budget')
    if not lb:
        return mod.execute(plan)
    tracer = LineBudget(lb, mod.traced_files() if hasattr(mod, 'traced_files') else None, per_event=True)
    try:
        with tracer:
            res = mod.execute(plan)
        res['lines'] = res.get('lines', 0) + tracer.count
        res['max_lines_between_events'] = max(tracer.max_between_events, tracer.count - tracer.base)
        return res
    except BudgetExceeded:
        return {'violations': [{'class': 'no-progress', 'detail': {'line_budget': lb}}], 'digest': 'no-progress:%d' % lb,
                'events': 0, 'lines': tracer.count, 'counters': {'no_progress': 1}, 'keys': [], 'discard': None}


def _exec_seed(args):
    mod, seed, tier = args[:3]
    plan = mod.gen(seed, tier)
    if len(args) > 3:
        plan.update(args[3])
    return run_plan(mod, plan)


def crash_to_violation(mod, res):
    """a run whose interpreter was killed by a signal (SIGABRT from 'Fatal Python error:
    Cannot recover from stack overflow', SIGSEGV) is a verdict for checks that declare
    CRASH_CLASS, a harness error for the others"""
    cls = getattr(mod, 'CRASH_CLASS', None)
    if cls and res.get('child_signal'):
        return {'violations': [{'class': cls, 'detail': {'signal': res['child_signal']}}], 'digest': 'crash:%d' % res['child_signal'],
                'events': 0, 'lines': 0, 'counters': {'interpreter_crashed': 1}, 'keys': [], 'discard': None}
    return res


def run_seed_forked(mod, seed, tier):
    """one run in a fork.  A run that does not come back within the (short) wall cap is
    repeated under the line tracer with a count budget: either it completes (the
    machine was merely slow; same digest, the tracer does not touch the log) or it ends
    in the deterministic violation no-progress, which replays."""
    res = run_forked(_exec_seed, (mod, seed, tier), getattr(mod, 'WALL_CAP_S', FIRST_WALL_CAP_S))
    if 'harness_error' in res and not res.get('child_signal'):
        # A run is a pure function of its plan; a failure of the harness process itself (e.g. the OS refusing
        # a thread or memory under load) is retried once.  A deterministic harness bug fails again and is reported.
        first = res['harness_error']
        res = run_forked(_exec_seed, (mod, seed, tier), getattr(mod, 'WALL_CAP_S', FIRST_WALL_CAP_S))
        if 'harness_error' in res:
            res['harness_error'] = 'twice: %s || %s' % (str(first)[-700:], str(res['harness_error'])[-700:])
        elif 'counters' in res:
            res['counters']['harness_retries'] = 1
            sys.stderr.write('ypsim: run with seed %d was retried after: %s\n' % (seed, str(first)[-300:]))
    if 'harness_timeout' in res and not getattr(mod, 'NO_RERUN', False):
        extra = {'_line_budget': NO_PROGRESS_LINES}
        res = run_forked(_exec_seed, (mod, seed, tier, extra), 600)
        if res.get('violations'):
            res['schedule_extra'] = extra
    return crash_to_violation(mod, res)


def _worker_loop(mod, prop, verif_seed, tier, w, nworkers, n_runs, deadline, digest_upto, wfd):
    agg = Aggregate()
    i = w
    max_viol = 40
    while i < n_runs and time.monotonic() < deadline:
        seed = derive_seed(verif_seed, prop, i)
        res = run_seed_forked(mod, seed, tier)
        agg.add(i, seed, res, i < digest_upto)
        if len(agg.violating) > max_viol:
            # keep the earliest ones only; a badly broken tree needs no more
            agg.violating = agg.violating[:max_viol]
        i += nworkers
    data = (json.dumps(agg.to_batch()) + '\n').encode()
    off = 0
    while off < len(data):
        off += os.write(wfd, data[off:off + 65536])


def fan_out(mod, prop, verif_seed, tier, n_runs, budget_s, nworkers, digest_upto=0):
    """Executes runs 0..n_runs-1 (run i on worker i mod nworkers, each in its own fork)
    until done or until the wall budget is used up.  Aggregation is commutative, and
    violations are sorted by run index, so the result does not depend on the worker
    count or on completion order."""
    deadline = time.monotonic() + budget_s
    pipes = []
    for w in range(nworkers):
        r, wfd = os.pipe()
        pid = os.fork()
        if pid == 0:
            code = 0
            try:
                os.close(r)
                for (r2, _) in pipes:
                    os.close(r2)
                _worker_loop(mod, prop, verif_seed, tier, w, nworkers, n_runs, deadline, digest_upto, wfd)
            except BaseException:
                traceback.print_exc()
                code = 3
            finally:
                os._exit(code)
        os.close(wfd)
        pipes.append((r, pid))
    agg = Aggregate()
    hard_deadline = deadline + RUN_WALL_CAP_S + 30
    bufs = {r: [] for r, _ in pipes}
    open_r = set(bufs)
    while open_r:
        left = hard_deadline - time.monotonic()
        if left <= 0:
            break
        rd, _, _ = select.select(list(open_r), [], [], left)
        for r in rd:
            c = os.read(r, 1 << 16)
            if c:
                bufs[r].append(c)
            else:
                open_r.discard(r)
    failed = []
    for r, pid in pipes:
        if r in open_r:
            try:
                os.kill(pid, signal.SIGKILL)
            except ProcessLookupError:
                pass
        os.close(r)
        _, status = os.waitpid(pid, 0)
        data = b''.join(bufs[r])
        if r in open_r or status != 0 or not data.endswith(b'\n'):
            failed.append((pid, status))
            continue
        agg.merge_batch(json.loads(data))
    if failed:
        raise HarnessError('worker processes failed: %r' % (failed,))
    agg.violating.sort(key=lambda v: v[0])
    agg.harness.sort(key=lambda h: h[0])
    return agg


# ------------------------------------------------------------------------------------
# shrinking

def run_plan_of(mod):
    return lambda plan: run_plan(mod, plan)


def run_plan_forked(mod, plan, cap=None):
    return crash_to_violation(mod, run_forked(run_plan_of(mod), plan, cap))


def _violates(mod, plan, cls):
    res = run_plan_forked(mod, plan, 600 if plan.get('_line_budget') else getattr(mod, 'WALL_CAP_S', None))
    for v in res.get('violations', ()):
        if v['class'] == cls:
            return v
    return None


def ddmin(items, test, deadline):
    """classic delta debugging on a list; test(sub) -> bool (True = still fails)"""
    n = 2
    while len(items) >= 2 and time.monotonic() < deadline:
        chunk = max(1, len(items) // n)
        subsets = [items[i:i + chunk] for i in range(0, len(items), chunk)]
        reduced = False
        for k in range(len(subsets)):
            if time.monotonic() >= deadline:
                break
            comp = [x for j, s in enumerate(subsets) if j != k for x in s]
            if comp and len(comp) < len(items) and test(comp):
                items = comp
                n = max(n - 1, 2)
                reduced = True
                break
        if not reduced:
            if n >= len(items):
                break
            n = min(len(items), n * 2)
    if len(items) == 1 and time.monotonic() < deadline and test([]):
        items = []
    return items


def shrink(mod, plan, cls, time_box=20.0, viol=None):
    deadline = time.monotonic() + time_box
    cur = json.loads(json.dumps(plan))
    # 0. narrow an enumerated fault space to the one placement that failed
    if viol is not None and hasattr(mod, 'narrow'):
        cand = mod.narrow(cur, viol)
        if cand is not None and _violates(mod, cand, cls) is not None:
            cur = cand
    simplify = getattr(mod, 'simplify', None)
    changed = True
    while changed and time.monotonic() < deadline:
        changed = False
        # 1. lists the module declares shrinkable by deletion (plans are closed under deletion)
        for field in getattr(mod, 'DDMIN_FIELDS', ('ops',)):
            if isinstance(cur.get(field), list) and cur[field]:
                def test(sub, field=field):
                    cand = dict(cur)
                    cand[field] = sub
                    return _violates(mod, cand, cls) is not None
                before = len(cur[field])
                cur[field] = ddmin(list(cur[field]), test, deadline)
                changed = changed or len(cur[field]) < before
        # 2. module-specific simplifications, greedy to a fixpoint; then delete again
        progress = simplify is not None
        while progress and time.monotonic() < deadline:
            progress = False
            for cand in simplify(cur):
                if time.monotonic() >= deadline:
                    break
                if _violates(mod, cand, cls) is not None:
                    cur = cand
                    progress = True
                    changed = True
                    break
    return cur


# ------------------------------------------------------------------------------------
# known findings

def load_known_findings():
    p = os.environ.get('YPSIM_KNOWN_FINDINGS') or os.path.join(VERIF_DIR, 'known_findings.json')
    if not os.path.exists(p):
        return {'open': [], 'fixed': []}
    with open(p) as f:
        return json.load(f)


def match_known(prop, cls, witness):
    for k in load_known_findings().get('open', []):
        if k['property'] == prop and k['class'] == cls and k['witness'] == witness:
            return k
    return None


# ------------------------------------------------------------------------------------
# replay files

def write_replay(prop, seed, tier, plan, viol, digest, witness):
    d = os.environ.get('YPSIM_REPLAY_DIR') or os.path.join(VERIF_DIR, 'replays')
    os.makedirs(d, exist_ok=True)
    path = os.path.join(d, '%s-%d.json' % (prop, seed))
    with open(path, 'w') as f:
        json.dump({'format': FORMAT, 'property': prop, 'seed': seed, 'tier': tier, 'plan': plan,
                   'violation': viol, 'witness': witness, 'digest': digest}, f, indent=1, sort_keys=True)
        f.write('\n')
    return path


def replay(mod, prop, path, verbose=False):
    """Re-executes a replay file.  exit 1 + VIOLATION line iff the recorded violation
    class shows again; prints whether detail and digest are identical too."""
    with open(path) as f:
        rp = json.load(f)
    if rp.get('format') != FORMAT or rp.get('property') != prop:
        print('HARNESS-ERROR not a %s replay file for %s' % (FORMAT, prop))
        return EXIT_HARNESS
    plan = rp['plan']
    if hasattr(mod, 'prewarm'):
        mod.prewarm()           # same zygote state as in the fan-out (a function of the code only)
    if verbose:
        plan = dict(plan)
        plan['_keep'] = True
    res = run_plan_forked(mod, plan, 600)
    if 'harness_error' in res or 'harness_timeout' in res:
        print('HARNESS-ERROR during replay: %s' % res.get('harness_error', 'timeout'))
        return EXIT_HARNESS
    if verbose:
        for rec in res.get('records', ()):
            print('  ', json.dumps(rec))
    want = rp['violation']
    got = [v for v in res['violations'] if v['class'] == want['class']]
    if not got:
        print('NOT-REPRODUCED property=%s class=%s (the run is clean on this tree: %d events)'
              % (prop, want['class'], res['events']))
        for v in res['violations']:
            print('  other violation: %s %s' % (v['class'], v['detail']))
            print('VIOLATION property=%s replay=%s' % (prop, path))
            return EXIT_VIOLATION
        return EXIT_OK
    same_detail = got[0]['detail'] == want['detail']
    same_digest = verbose or res['digest'] == rp['digest']
    print('REPRODUCED property=%s class=%s detail=%s same_detail=%s same_digest=%s'
          % (prop, want['class'], json.dumps(got[0]['detail']), same_detail, same_digest))
    if 'info' in got[0]:
        print('  info: %s' % json.dumps(got[0]['info']))
    print('VIOLATION property=%s replay=%s' % (prop, path))
    return EXIT_VIOLATION


# ------------------------------------------------------------------------------------
# the check driver

def validate_evidence(ev):
    """built-in structural check (jsonschema is not available in /venv)"""
    for k in ('property_id', 'tier', 'seed', 'level', 'coverage', 'wall_s'):
        assert k in ev, k
    c = ev['coverage']
    assert isinstance(ev['seed'], int) and ev['tier'] in ('quick', 'thorough')
    assert isinstance(c['evaluations'], int) and c['evaluations'] >= 1
    assert isinstance(c['distinct_nontrivial'], int) and c['distinct_nontrivial'] >= 2
    assert isinstance(c['rule'], str) and isinstance(c['samples'], list) and c['samples']


def write_evidence(prop, ev):
    validate_evidence(ev)
    if os.path.abspath(REPO) != '/repo' and not os.environ.get('YPSIM_EVIDENCE_DIR'):
        return      # a run against a scratch copy (mutants, seeded changes) must not overwrite the evidence about /repo
    d = os.environ.get('YPSIM_EVIDENCE_DIR') or os.path.join(VERIF_DIR, 'evidence')
    os.makedirs(d, exist_ok=True)
    validate_evidence(ev)
    tmp = os.path.join(d, '.%s.json.tmp' % prop)
    with open(tmp, 'w') as f:
        json.dump(ev, f, indent=1, sort_keys=True)
        f.write('\n')
    os.replace(tmp, os.path.join(d, '%s.json' % prop))


def fresh_interpreter_digests(prop, verif_seed, tier, idxs, workers, hashseed=None):
    """digests of runs idxs computed by a fresh interpreter (optionally under another
    string-hash seed)"""
    env = dict(os.environ)
    env['VERIF_SEED'] = str(verif_seed)
    if hashseed is not None:
        env['YPSIM_HASHSEED'] = str(hashseed)
        env.pop('PYTHONHASHSEED', None)
    cmd = [sys.executable, os.path.join(VERIF_DIR, 'check'), prop, '--tier', tier,
           '--digests', ','.join(map(str, idxs)), '--workers', str(workers)]
    out = subprocess.run(cmd, env=env, capture_output=True, text=True, timeout=600)
    if out.returncode != 0:
        raise HarnessError('fresh interpreter failed: %s\n%s' % (out.stdout[-2000:], out.stderr[-2000:]))
    for line in out.stdout.splitlines():
        if line.startswith('DIGESTS '):
            return {int(k): v for k, v in json.loads(line[8:]).items()}
    raise HarnessError('fresh interpreter printed no digests')


def digests_only(mod, prop, verif_seed, tier, idxs):
    out = {}
    for i in idxs:
        res = run_seed_forked(mod, derive_seed(verif_seed, prop, i), tier)
        out[i] = res.get('digest', 'ERR:' + str(res)[:200])
    return out


def digests_parallel(mod, prop, verif_seed, tier, idxs, workers):
    """digests of the given runs computed by `workers` processes (run i on worker i mod workers)"""
    if workers <= 1:
        return digests_only(mod, prop, verif_seed, tier, idxs)
    pipes = []
    for w in range(workers):
        r, wfd = os.pipe()
        pid = os.fork()
        if pid == 0:
            try:
                os.close(r)
                mine = [i for k, i in enumerate(idxs) if k % workers == w]
                data = json.dumps(digests_only(mod, prop, verif_seed, tier, mine)).encode()
                off = 0
                while off < len(data):
                    off += os.write(wfd, data[off:off + 65536])
            finally:
                os._exit(0)
        os.close(wfd)
        pipes.append((r, pid))
    out = {}
    for r, pid in pipes:
        chunks = []
        while True:
            c = os.read(r, 1 << 16)
            if not c:
                break
            chunks.append(c)
        os.close(r)
        os.waitpid(pid, 0)
        out.update({int(k): v for k, v in json.loads(b''.join(chunks) or b'{}').items()})
    return out


def process_violations(mod, prop, tier, agg, out):
    """shrinks, matches against known findings, writes and verifies replay files.
    returns (exit code, number of unlisted violations, known lines)"""
    by_class = collections.OrderedDict()
    for (i, seed, viols, extra) in agg.violating:
        for v in viols[:1]:
            by_class.setdefault(v['class'], []).append((i, seed, v, extra))
    exit_code = EXIT_OK
    unlisted = 0
    known = []
    shrink_box = float(os.environ.get('YPSIM_SHRINK_S', '20'))
    for cls, lst in list(by_class.items())[:4]:
        reported = 0
        for (i, seed, v, extra) in lst[:8]:
            if reported >= 2:
                break
            plan = mod.gen(seed, tier)
            plan.update(extra)
            v0 = _violates(mod, plan, cls)
            if v0 is None:
                out('HARNESS-ERROR nondeterministic: run %d (seed %d) reported %s but does not repeat' % (i, seed, cls))
                return EXIT_HARNESS, unlisted, known
            small = shrink(mod, plan, cls, shrink_box, v0)
            res = run_plan_forked(mod, small, 600)
            vs = [x for x in res.get('violations', ()) if x['class'] == cls]
            if not vs:
                out('HARNESS-ERROR nondeterministic: shrunk plan of run %d does not repeat %s' % (i, cls))
                return EXIT_HARNESS, unlisted, known
            wit = mod.witness(small, vs[0]) if hasattr(mod, 'witness') else json.dumps(vs[0]['detail'])
            k = match_known(prop, cls, wit)
            if k is not None:
                line = 'KNOWN-FINDING: property=%s %s' % (prop, k['what'])
                if line not in known:
                    known.append(line)
                    out(line)
                continue
            path = write_replay(prop, seed, tier, small, vs[0], res['digest'], wit)
            # the file must reproduce in a fresh interpreter
            cmd = [sys.executable, os.path.join(VERIF_DIR, 'check'), prop, '--replay', path]
            rp = subprocess.run(cmd, capture_output=True, text=True, timeout=300)
            if rp.returncode != EXIT_VIOLATION or 'same_detail=True same_digest=True' not in rp.stdout:
                out('HARNESS-ERROR nondeterministic replay of %s:\n%s%s' % (path, rp.stdout[-1500:], rp.stderr[-1500:]))
                return EXIT_HARNESS, unlisted, known
            unlisted += 1
            reported += 1
            exit_code = EXIT_VIOLATION
            out('violation class=%s witness=%s detail=%s (run %d, seed %d, shrunk and replayed)'
                % (cls, wit, json.dumps(vs[0]['detail'])[:400], i, seed))
            out('VIOLATION property=%s replay=%s' % (prop, path))
    return exit_code, unlisted, known


def run_check(mod, prop, tier, verif_seed, nworkers=None, budget_s=None, n_runs=None, selftest=True):
    t0 = time.monotonic()
    out = lambda s: print(s, flush=True)
    nworkers = nworkers or int(os.environ.get('YPSIM_WORKERS', '0')) or min(16, os.cpu_count() or 1)
    cfg = mod.TIERS[tier]
    n_runs = n_runs or int(os.environ.get('YPSIM_RUNS', '0')) or cfg['runs']
    budget_s = budget_s or float(os.environ.get('VERIF_BUDGET_S', '0')) or cfg['budget_s']
    st_n = 3 if selftest else 0
    if hasattr(mod, 'prewarm'):
        mod.prewarm()
    out('ypsim %s tier=%s VERIF_SEED=%d runs<=%d budget=%ds workers=%d repo=%s hashseed=%s'
        % (prop, tier, verif_seed, n_runs, budget_s, nworkers, REPO, os.environ.get('PYTHONHASHSEED')))
    try:
        agg = fan_out(mod, prop, verif_seed, tier, n_runs, budget_s, nworkers, digest_upto=st_n)
    except HarnessError as e:
        out('HARNESS-ERROR %s' % e)
        return EXIT_HARNESS
    wall_runs = time.monotonic() - t0
    exit_code = EXIT_OK
    if agg.harness:
        for (i, seed, what) in agg.harness[:3]:
            out('HARNESS-ERROR run %d (seed %d): %s' % (i, seed, str(what)[-1500:]))
        exit_code = EXIT_HARNESS
    harness_failed = exit_code == EXIT_HARNESS
    # determinism self-test embedded in every run
    det = {'seeds': st_n, 'ok': None}
    if st_n and exit_code == EXIT_OK:
        idxs = [i for i in range(st_n) if i in agg.digests]
        again = digests_only(mod, prop, verif_seed, tier, idxs)
        hs = getattr(mod, 'SELFTEST_HASHSEED', 7919)   # the fresh interpreter also runs under another string-hash seed
        try:
            fresh = fresh_interpreter_digests(prop, verif_seed, tier, idxs, 1, hashseed=hs)
        except (HarnessError, subprocess.TimeoutExpired) as e:
            out('HARNESS-ERROR %s' % e)
            return EXIT_HARNESS
        bad = [i for i in idxs if not (agg.digests[i] == again[i] == fresh.get(i))]
        det = {'seeds': len(idxs), 'ok': not bad, 'fresh_interpreter_hashseed': hs if hs is not None else HASHSEED}
        if bad:
            out('HARNESS-ERROR NONDETERMINISM runs %r: %r %r %r' % (bad, [agg.digests[i] for i in bad],
                                                                   [again[i] for i in bad], [fresh.get(i) for i in bad]))
            exit_code = EXIT_HARNESS
            # a code under test whose behaviour depends on the string-hash seed or on process identity makes the
            # digests differ too; if it also violates the property, the (replayed) violation is the verdict
            harness_failed = True
    unlisted, known = 0, []
    if agg.violating and (exit_code == EXIT_OK or harness_failed):
        # harness errors in some runs must not mask violations found (and replayed) in others
        code, unlisted, known = process_violations(mod, prop, tier, agg, out)
        exit_code = code if (code != EXIT_OK or not harness_failed) else EXIT_HARNESS
    wall = time.monotonic() - t0
    # evidence
    samples = []
    for i in range(min(2, max(agg.max_i + 1, 1))):
        p = mod.gen(derive_seed(verif_seed, prop, i), tier)
        samples.append(mod.sample_view(p) if hasattr(mod, 'sample_view') else p)
    cov = {
        'evaluations': agg.counters.get('cases', 0) if getattr(mod, 'CASES_ARE_COUNTED', False) else agg.runs,
        'runs': agg.runs,
        'distinct_nontrivial': len(agg.keys),
        'rule': mod.RULE,
        'samples': samples,
        'exhaustive': False,
        'runs_per_hour': int(agg.runs / max(wall_runs, 1e-6) * 3600),
        'seeds': 'run i uses seed sha256("%d:%s:i")[:8], i in 0..%d' % (verif_seed, prop, agg.max_i),
        'simulated_time': {'events': agg.events, 'traced_lines': agg.lines,
                           'note': 'the system under test has no clock; simulated time is the global event sequence number, plus executed source lines where the line tracer ran'},
        'faults_and_probes_fired': dict(sorted(agg.counters.items())),
        'discards': dict(sorted(agg.discards.items())),
        'components': mod.COMPONENTS,
        'determinism_selftest': det,
        'violating_runs': len(agg.violating),
        'known_findings_matched': known,
        'workers': nworkers,
        'repo': REPO,
    }
    ev = {'property_id': prop, 'tier': tier, 'seed': verif_seed, 'level': mod.LEVEL, 'coverage': cov,
          'assumptions': mod.ASSUMPTIONS, 'wall_s': round(wall, 2), 'violations': unlisted}
    try:
        write_evidence(prop, ev)
    except AssertionError as e:
        out('HARNESS-ERROR evidence file would not be valid (%r): runs=%d distinct=%d' % (e, agg.runs, len(agg.keys)))
        return exit_code or EXIT_HARNESS
    zero = [p for p in getattr(mod, 'REQUIRED_PROBES', ()) if not agg.counters.get(p)]
    if zero and exit_code == EXIT_OK and not agg.violating:
        out('HARNESS-ERROR required probes never fired: %r (the workload does not reach what it claims)' % zero)
        exit_code = EXIT_HARNESS
    out('%s %s: %d runs (%d discarded), %d events, %d distinct non-trivial cases, %d violating runs, %d unlisted violations, %.1fs  [%s]'
        % (prop, tier, agg.runs, sum(agg.discards.values()), agg.events, len(agg.keys), len(agg.violating), unlisted, wall,
           {0: 'OK', 1: 'VIOLATION', 2: 'HARNESS-ERROR'}[exit_code]))
    return exit_code
