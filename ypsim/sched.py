"""Baton-passing thread scheduler (DESIGN.md 3.1, thread mode of C04).

Real threads, exactly one runnable at a time.  Every executed source line of the
code under test (sys.settrace line events in the traced files and in generated code
whose file name starts with '<sim') is a pre-emption point; at each point the seeded
scheduler decides whether the baton moves and to whom.  In record mode the decisions
come from a dedicated PRNG and are written down as (point ordinal, next thread); in
replay mode they are read from that list and nothing is drawn, so any sub-list of a
recorded schedule is again a valid schedule."""
import sys, threading, random


class Baton:
    def __init__(self, n, traced_files, seed=None, p=0.05, schedule=None, max_points=400000, p_by_file=None):
        self.n = n
        self.traced = set(traced_files)
        self.rng = random.Random(seed) if schedule is None else None
        self.p = p
        self.p_by_file = p_by_file or {}     # file name -> switch probability at the points in that file
        self.replay = None if schedule is None else [tuple(x) for x in schedule]
        self.ri = 0
        self.events = [threading.Event() for _ in range(n)]
        self.alive = [True] * n
        self.points = 0
        self.switches = []          # recorded (point ordinal, next thread)
        self.fired = 0
        self.in_file = {}           # file basename -> pre-emptions that happened there
        self.done = threading.Event()
        self.errors = []
        self.max_points = max_points
        self.holder = None

    # ---- called by the thread that holds the baton, from its trace function
    def point(self, tid, filename):
        self.points += 1
        if self.points > self.max_points:
            return
        if self.replay is not None:
            while self.ri < len(self.replay) and self.replay[self.ri][0] < self.points:
                self.ri += 1
            if self.ri < len(self.replay) and self.replay[self.ri][0] == self.points:
                nx = self.replay[self.ri][1]
                self.ri += 1
            else:
                return
        else:
            if self.rng.random() >= self.p_by_file.get(filename, self.p):
                return
            cand = [i for i in range(self.n) if self.alive[i]]
            nx = cand[self.rng.randrange(len(cand))]
            if nx == tid:
                return
            self.switches.append((self.points, nx))
        if nx == tid or nx >= self.n or not self.alive[nx]:
            return
        self.fired += 1
        base = filename.rsplit('/', 1)[-1]
        self.in_file[base] = self.in_file.get(base, 0) + 1
        self.events[tid].clear()
        self.holder = nx
        self.events[nx].set()
        self.events[tid].wait()

    def _global_trace(self, tid):
        def local(frame, ev, arg):
            if ev == 'line':
                self.point(tid, frame.f_code.co_filename)
            return local

        def tr(frame, ev, arg):
            fn = frame.f_code.co_filename
            if fn in self.traced or fn.startswith('<sim'):
                return local
            return None
        return tr

    def _worker(self, tid, body):
        self.events[tid].wait()
        sys.settrace(self._global_trace(tid))
        try:
            body()
        except BaseException as e:      # the body catches per-op exceptions itself; this is a harness problem
            self.errors.append((tid, repr(e)))
        finally:
            sys.settrace(None)
            self.alive[tid] = False
            nxt = [i for i in range(self.n) if self.alive[i]]
            if nxt:
                self.holder = nxt[0]
                self.events[nxt[0]].set()       # deterministic hand-over: lowest live thread
            else:
                self.done.set()

    def run(self, bodies, first=0, wall_cap=60.0, block_s=None):
        """runs the bodies, one per thread, under the baton discipline; returns True when all are done, False on
        a wall-clock stall (harness problem, never a verdict) and - if block_s is given - 'blocked' when the thread
        that holds the baton has not reached a single pre-emption point for block_s seconds (it waits for something
        only a parked thread could release: under this discipline that never ends)"""
        import time
        threads = [threading.Thread(target=self._worker, args=(i, b), daemon=True) for i, b in enumerate(bodies)]
        for t in threads:
            t.start()
        self.holder = first
        self.events[first].set()
        if block_s is None:
            ok = self.done.wait(wall_cap)
        else:
            ok = False
            t0 = last = time.monotonic()
            seen = -1
            while True:
                if self.done.wait(0.5):
                    ok = True
                    break
                now = time.monotonic()
                if self.points != seen:
                    seen, last = self.points, now
                elif now - last > block_s:
                    return 'blocked'
                if now - t0 > wall_cap:
                    break
        if ok:
            for t in threads:
                t.join(5)
        return ok
